"""C01 Content round trip.  Four planes of complete products / deviation-bounded configuration
exploration, every case a real write session followed by real reads (names, factory, directory)."""
from __future__ import annotations

import os
import shutil

from mc.core import explore
from mc.core.evidence import Check, Shard
from mc.core.pool import Pool, chunks, forked
from mc.gen import archives, chains
from mc.lib7z import Collect, seams

MODULE = "mc.checks.c01"


def sizes_around(b: int):
    return sorted({0, 1, 2, 15, 16, 17, 31, 32, 33, b - 1, b, b + 1, 2 * b - 1, 2 * b, 2 * b + 1, 3 * b + 1, 4 * b})


# ---------------------------------------------------------------------------------------------
def run_case(case: dict, workdir: str | None = None, modes=("factory", "path")):
    """One round trip; returns list of (symptom, message)."""
    workdir = workdir or archives.fresh_dir("c01")
    out = []
    try:
        prod = archives.produce(case, os.path.join(workdir, "w"))
    except Exception as ex:
        return [("write-exception", f"{type(ex).__name__}: {ex}")]
    model = prod["members"]
    want_names = [n for n, _ in model]
    with seams(block=case.get("block"), chunk=case.get("chunk")):
        closer = None
        try:
            z, closer = archives.open_for_read(prod, case)
            try:
                names = z.getnames()
                if names != want_names:
                    out.append(("names", f"listed {names!r} want {want_names!r}"))
                if "factory" in modes:
                    f = Collect()
                    z.extractall(factory=f)
                    got = f.as_list()
                    if got != model:
                        out.append(("factory-bytes", _diff(got, model)))
            finally:
                z.close()
                if closer is not None:
                    closer.close()
        except Exception as ex:
            out.append(("read-exception", f"{type(ex).__name__}: {ex}"))
        if "path" in modes:
            dest = os.path.join(workdir, "x")
            shutil.rmtree(dest, ignore_errors=True)
            closer = None
            try:
                z, closer = archives.open_for_read(prod, case)
                try:
                    z.extractall(path=dest)
                finally:
                    z.close()
                    if closer is not None:
                        closer.close()
                for n, d in model:
                    p = os.path.join(dest, n)
                    try:
                        with open(p, "rb") as fh:
                            got = fh.read()
                    except OSError as ex:
                        out.append(("path-missing", f"{n!r}: {ex}"))
                        continue
                    if got != d:
                        out.append(("path-bytes", f"{n!r}: {len(got)} bytes differ from the {len(d)} written"))
                extra = _files_under(dest) - {os.path.normpath(n) for n in want_names}
                if extra:
                    out.append(("path-extra", f"unexpected files {sorted(extra)[:3]}"))
            except Exception as ex:
                out.append(("path-exception", f"{type(ex).__name__}: {ex}"))
            shutil.rmtree(dest, ignore_errors=True)
        if prod["target"].startswith("mv") and not out:
            # the concatenated volumes are the archive: reading them as one stream must give the same result
            try:
                import io

                import py7zr

                with py7zr.SevenZipFile(io.BytesIO(prod["blob"]), password=prod["password"]) as z:
                    f = Collect()
                    z.extractall(factory=f)
                    if f.as_list() != model:
                        out.append(("mv-concat", "concatenated volumes read differently"))
            except Exception as ex:
                out.append(("mv-concat-exception", f"{type(ex).__name__}: {ex}"))
    return out


def _files_under(root):
    out = set()
    for d, _, files in os.walk(root):
        for f in files:
            out.add(os.path.normpath(os.path.relpath(os.path.join(d, f), root)))
    return out


def _diff(got, model):
    if [n for n, _ in got] != [n for n, _ in model]:
        return f"delivered names {[n for n, _ in got]!r} want {[n for n, _ in model]!r}"
    for (n, a), (_, b) in zip(got, model):
        if a != b:
            k = next((i for i in range(min(len(a), len(b))) if a[i] != b[i]), min(len(a), len(b)))
            return f"{n!r}: got {len(a)} bytes want {len(b)}, first difference at {k}"
    return "?"


def _library_defect(case):
    """A failing case is not py7zr's when a codec library alone cannot round-trip the chain's stage input (DESIGN 4.1)."""
    try:
        data = b"".join(d for _, d in archives.materialize(case))
        return chains.codec_library_defect(case["chain"], data, block=case.get("block"), **case.get("params", {}))
    except Exception:
        return None


def _library_alone_single(single):
    """(for Check.isolate) single = (plane, [case]): does the codec library alone fail on this case's data?"""
    return _library_defect(single[1][0])


def sig(case, sym):
    parts = case["chain"].split("+")
    return {"symptom": sym, "chain": case["chain"], "header": case["header"], "target": case["target"][:2],
            "scaled": case.get("block") is not None or case.get("chunk") is not None}


def confirm_at_real_constants(case):
    """DESIGN 4.2: an anomaly seen under rebound constants is re-run with the real ones and content
    scaled in proportion before it is reported."""
    if case.get("block") is None and case.get("chunk") is None:
        return True
    import copy

    from py7zr.properties import get_default_blocksize

    real = copy.deepcopy(case)
    b = case.get("block") or 64
    k = get_default_blocksize() / b
    real["block"] = None
    real["chunk"] = None
    real["members"] = [(m[0], m[1], int(m[2] * k) if m[2] > 33 else m[2]) + tuple(m[3:]) for m in case["members"]]
    return bool(run_case(real, modes=("factory",)))


# ---------------------------------------------------------------------------------------------
def p1_cases(tier, seed):
    names = chains.ALL if tier == "thorough" else chains.FAMILIES + chains.FAMILIES_AES
    for chain in names:
        tex = ["random", "repetitive"] + (["x86"] if chains.has_bcj(chain) else [])
        for block in (64, 61):
            for size in sizes_around(64):
                for t in tex:
                    if block == 61 and t == "repetitive":
                        continue
                    yield archives.default_case(chain=chain, members=[("@ascii", t, size)], header="raw", block=block, chunk=7, seed=seed)
        for a in (0, 1, 17, 64, 65):
            for b in (0, 1, 16, 33, 129):
                yield archives.default_case(chain=chain, members=[("@ascii", "random", a), ("@dot", "repetitive", b)], header="raw", block=64, chunk=7, seed=seed)


def p5_cases(tier, seed):
    """Solid folders of 3..5 members whose sizes straddle the (rebound) I/O block in every combination: leftovers of one
    member's decode are handed to the next, several times in a row, with and without a small extraction chunk."""
    names = chains.ALL if tier == "thorough" else chains.FAMILIES + chains.FAMILIES_AES
    import itertools

    sizes = [1, 10, 64, 74, 130]
    for chain in names:
        for combo in itertools.product(sizes, repeat=4):
            if tier == "quick" and (sum(combo) % 3 == 0) and chain not in ("COPY", "DEFLATE", "ZSTD", "LZMA2"):
                continue  # quick: two thirds of the product for the other chains
            members = [("@ascii", "random" if k % 2 else "repetitive", s, k + 1) for k, s in enumerate(combo)]
            for j, m in enumerate(members):
                members[j] = (f"m{j}.bin",) + m[1:]
            yield archives.default_case(chain=chain, members=members, header="raw", block=64, chunk=None if sum(combo) % 2 else 7, seed=seed)
        for combo in ((10, 10, 64, 74, 1), (0, 1, 0, 129, 64), (64, 64, 64, 64, 64), (130, 1, 1, 1, 130), (1, 63, 1, 63, 1)):
            members = [(f"m{j}.bin", "random", s, j + 1) for j, s in enumerate(combo)]
            yield archives.default_case(chain=chain, members=members, header="raw", block=64, chunk=None, seed=seed)
            yield archives.default_case(chain=chain, members=members, header="raw", block=61, chunk=16, seed=seed)


def p6_cases(tier, seed):
    """Multi-volume targets as a full product: volume size x header mode x member count x chain.  The header and the packed
    streams then straddle one, two, three and more volume files (a read on a multi-volume stream is short at every volume end)."""
    vols = [64, 72, 100, 150, 512] if tier == "quick" else [64, 65, 72, 80, 100, 128, 150, 333, 512, 4096]
    for vol in vols:
        for header, chain in (("raw", "COPY"), ("raw", "LZMA2"), ("encoded", "COPY"), ("encoded", "BZIP2"), ("encrypted", "LZMA2+AES"), ("raw", "COPY+AES")):
            for count in (0, 1, 3) if tier == "quick" else (0, 1, 2, 3, 5):
                members = [(f"volume-member-{k}.bin", "random" if k % 2 == 0 else "repetitive", 33 + 100 * k, k + 1) for k in range(count)]
                yield archives.default_case(chain=chain, header=header, target=f"mv{vol}", members=members, seed=seed)


def p2_cases(tier, seed):
    names = chains.ALL if tier == "thorough" else chains.FAMILIES + ["LZMA2+AES", "COPY+AES", "X86+BZIP2+AES", "AES"]
    sizes = [32767, 32768, 32769, (1 << 20) - 1, 1 << 20, (1 << 20) + 1] + ([(1 << 21) + 1] if tier == "thorough" else [])
    for chain in names:
        for size in sizes:
            for t in (["random", "repetitive"] if tier == "thorough" else ["repetitive" if size % 2 else "random"]):
                yield archives.default_case(chain=chain, members=[("@ascii", t, size)], header="raw", seed=seed)


def p4_cases(tier, seed):
    sizes = [0, 1, 1000]
    for preset in list(range(10)) + [9 | 0x80000000]:
        for chain in ("LZMA2", "LZMA"):
            for s in sizes:
                yield archives.default_case(chain=chain, params={chain: {"preset": preset}}, members=[("@ascii", "repetitive", s)], header="raw", seed=seed)
    for dist in (1, 2, 256):
        for s in sizes:
            yield archives.default_case(chain="DELTA+LZMA2", params={"DELTA": {"dist": dist}}, members=[("@ascii", "repetitive", s)], header="raw", seed=seed)
    for level in (1, 3, 19, 22):
        for s in sizes:
            yield archives.default_case(chain="ZSTD", params={"ZSTD": {"level": level}}, members=[("@ascii", "repetitive", s)], header="raw", seed=seed)
    for level in (0, 5, 11):
        for s in sizes:
            yield archives.default_case(chain="BROTLI", params={"BROTLI": {"level": level}}, members=[("@ascii", "repetitive", s)], header="raw", seed=seed)
    for order in (2, 6, 8, 32):
        for mem in (16, 24, "64k", "16m", "2048b"):
            for s in sizes:
                yield archives.default_case(chain="PPMD", params={"PPMD": {"order": order, "mem": mem}}, members=[("@ascii", "repetitive", s)], header="raw", seed=seed)


P3_CHAINS = ["LZMA2"] + [c for c in chains.FAMILIES + chains.FAMILIES_AES if c != "LZMA2"]
P3_HEADERS = ["encoded", "raw", "encrypted"]
P3_TARGETS = ["bytesio", "path", "fileobj", "mv64", "mv100", "mv4096"]
P3_COUNTS = [1, 0, 2, 3]
P3_CHUNKS = [None, 1, 7, 64]
P3_SIZES = [33, 0, 1, 16, 17, 1000]
P3_VIA = ["writestr", "writef"]


def p3_case(ch: explore.Chooser, seed: int):
    chain = ch.pick(P3_CHAINS, "chain")
    header = ch.pick(P3_HEADERS, "header")
    target = ch.pick(P3_TARGETS, "target")
    count = ch.pick(P3_COUNTS, "count")
    chunk = ch.pick(P3_CHUNKS, "chunk")
    via = ch.pick(P3_VIA, "via")
    mode = ch.pick(["w", "x"], "open-mode")  # 'x' takes effect for targets given by name
    members = []
    for k in range(count):
        cls = ch.pick(archives.NAME_CLASSES, f"name[{k}]")
        size = ch.pick(P3_SIZES, f"size[{k}]")
        members.append(("@" + cls, "random" if k % 2 == 0 else "repetitive", size))
    return archives.default_case(chain=chain, header=header, target=target, chunk=chunk, via=via, members=members, seed=seed, mode=mode)


# ---------------------------------------------------------------------------------------------
def _judge_in_child(a):
    case, wd, modes = a
    r = run_case(case, wd, modes=modes)
    return r, bool(r) and _library_defect(case)


def _fresh_interpreter(case):
    """Replay one case in a brand-new interpreter (python -m mc.replay): -> (exit status, last output line).
    0 = holds, 1 = an ordinary violation was reproduced, anything else = the interpreter died or hung."""
    import json
    import subprocess
    import sys
    import tempfile

    from mc.core.evidence import jsonable

    with tempfile.NamedTemporaryFile("w", suffix=".json", dir="/dev/shm", delete=False) as f:
        json.dump({"module": MODULE, "property": "C01", "what": "fresh-interpreter confirmation", "case": jsonable({"case": case})}, f)
    try:
        r = subprocess.run([sys.executable, "-m", "mc.replay", f.name], cwd=os.path.dirname(os.path.dirname(os.path.dirname(os.path.abspath(__file__)))),
                           capture_output=True, text=True, timeout=600)
        return r.returncode, (r.stdout.strip().splitlines() or [""])[-1][:300]
    except subprocess.TimeoutExpired:
        return -999, "timeout"
    finally:
        os.remove(f.name)


def shard(task):
    kind, arg = task
    sh = Shard()
    wd = archives.fresh_dir("c01")
    if kind in ("P1", "P2", "P4", "P5", "P6"):
        for case in arg:
            modes = ("factory",) if kind == "P5" else ("factory", "path")
            if "PPMD" in case["chain"] and chains.has_bcj(case["chain"]):
                # pyppmd decodes in a helper thread; after a failed decode (which some BCJ+PPMd inputs provoke inside the codec
                # libraries themselves) that thread can take down or block whatever the process does next.  Such cases run in
                # a child process of their own, so that a library accident cannot be blamed on - or hide - a later case.
                st, val = forked(_judge_in_child, (case, wd, modes), timeout=600)
                if st == "ok":
                    r, libdefect = val
                elif st == "error":
                    raise RuntimeError(val)
                else:
                    st2, val2 = forked(_judge_in_child, (case, wd, modes), timeout=600)
                    if st2 == "ok":
                        r, libdefect = val2
                        sh.count("child_death_not_reproduced")
                    else:
                        st3, val3 = forked(_library_defect, case, timeout=600)
                        if st3 != "ok" or val3:
                            r, libdefect = [("child-died", "")], True  # the codec libraries alone misbehave on this input
                        else:
                            # a forked child inherits the worker's memory, pyppmd's state after earlier cases included: the
                            # death counts only if a brand-new interpreter dies on this case as well
                            rc, tail = _fresh_interpreter(case)
                            if rc == 0:
                                sh.count("child_death_depends_on_process_history")
                                r, libdefect = [], False
                            elif rc == 1:
                                r, libdefect = [("fresh-interpreter-violation", tail)], False
                            else:
                                r, libdefect = [("interpreter-died" if st == "crash" else "hang", f"the process {'died (%s)' % val if st == 'crash' else 'hung'} while py7zr handled this case, in two forked children and in a fresh interpreter (exit {rc}); the codec libraries alone handle it")], False
            else:
                r = run_case(case, wd, modes=modes)
                libdefect = bool(r) and _library_defect(case)
            nontrivial = any(m[2] > 0 for m in case["members"])
            sh.case(case, nontrivial=nontrivial, sample=case if len(sh.samples) < 1 else None)
            sh.note("chains", case["chain"])
            if r and libdefect:
                sh.count("codec_library_defect_not_judged")
                sh.note("codec_library_defects", case["chain"].replace("+AES", ""))
                continue
            for sym, msg in r:
                if "PPMD" in case["chain"] and chains.has_bcj(case["chain"]):
                    confirmed = forked(confirm_at_real_constants, case, timeout=600) in (("ok", True),) or sym in ("interpreter-died", "hang")
                else:
                    confirmed = confirm_at_real_constants(case)
                if not confirmed:
                    sh.count("scaled_only_anomalies")
                    continue
                sh.violation(sig(case, sym), msg, {"case": case})
    elif kind == "P3":
        prefix, bound, seed = arg

        def body(ch):
            case = p3_case(ch, seed)
            return case, run_case(case, wd)

        def on_exec(ch, res):
            case, r = res
            sh.case(case, nontrivial=any(m[2] > 0 for m in case["members"]), sample={"choices": ch.decoded(), "case": case} if len(sh.samples) < 1 else None)
            sh.note("chains", case["chain"])
            sh.count(f"deviations={ch.cost()}")
            if r and _library_defect(case):
                sh.count("codec_library_defect_not_judged")
                return
            for sym, msg in r:
                sh.violation(sig(case, sym), msg, {"case": case, "choices": ch.choices})

        explore.explore(body, bound, on_exec, prefix=prefix)
    shutil.rmtree(wd, ignore_errors=True)
    return sh.result()


def replay(case):
    wd = archives.fresh_dir("c01replay")
    try:
        return run_case(case["case"], wd)
    finally:
        shutil.rmtree(wd, ignore_errors=True)


# ---------------------------------------------------------------------------------------------
# P7: the extraction chunk limit py7zr derives from the process's own resource limits (properties.get_memory_limit():
# a quarter of what RLIMIT_DATA leaves above 256 MB) instead of the limit a seam or the default supplies
def _p7_child(a):
    import io
    import resource

    import py7zr
    from py7zr import properties

    chain, soft = a
    members = [("a.txt", b"hello"), ("d/b.bin", b"world!" * 40), ("c", b"third member")]
    bio = io.BytesIO()
    with py7zr.SevenZipFile(bio, "w", filters=chains.py_filters(chain)) as z:
        for n, d in members:
            z.writestr(d, n)
    _, hard = resource.getrlimit(resource.RLIMIT_DATA)
    resource.setrlimit(resource.RLIMIT_DATA, (soft, hard))
    limit = properties.get_memory_limit()
    f = Collect()
    try:
        with py7zr.SevenZipFile(io.BytesIO(bio.getvalue())) as z:
            names = z.getnames()
            z.extractall(factory=f)
    except Exception as ex:
        return limit, f"{type(ex).__name__}: {ex}"
    got = f.as_list()
    if names != [n for n, _ in members] or sorted(got) != sorted(members):
        return limit, f"delivered {[(n, len(d)) for n, d in got]}"
    return limit, None


def shard_p7(task):
    sh = Shard()
    for chain, soft in task:
        st, val = forked(_p7_child, (chain, soft), timeout=120)
        sh.case(("P7", chain, soft), nontrivial=True, sample={"chain": chain, "RLIMIT_DATA": soft, "derived_chunk_limit": val[0] if st == "ok" else None} if len(sh.samples) < 2 else None)
        if st == "error":
            sh.count("harness_case_error")
            sh.note("harness_errors", str(val)[-200:])
        elif st != "ok":
            sh.violation({"symptom": "interpreter-died" if st == "crash" else st, "plane": "P7", "chain": chain}, f"P7 {chain} RLIMIT_DATA={soft}: {st} {str(val)[-300:]}", {"plane": "P7", "chain": chain, "soft": soft})
        elif val[1]:
            sh.violation({"symptom": "round-trip-fails-under-rlimit", "plane": "P7", "chain": chain}, f"P7 {chain} RLIMIT_DATA={soft} (derived chunk limit {val[0]}): {val[1]}", {"plane": "P7", "chain": chain, "soft": soft})
    return sh.result()


def main(tier="quick", seed=0, only=None):
    chk = Check("C01", "exploration", MODULE, tier, seed)
    tasks = []
    planes = {"P1": list(p1_cases(tier, seed)), "P2": list(p2_cases(tier, seed)), "P4": list(p4_cases(tier, seed)), "P5": list(p5_cases(tier, seed)), "P6": list(p6_cases(tier, seed))}
    for name, cases in planes.items():
        if only and name not in only:
            continue
        per = {"P1": 60, "P2": 6, "P4": 20, "P5": 150, "P6": 10}[name]
        tasks += [(name, c) for c in chunks(cases, per)]
    bound = 2 if tier == "quick" else 3
    if not only or "P3" in only:
        # shard the choice tree by its first-level deviations (plus the default execution itself)
        probe = explore.Chooser([])
        p3_case(probe, seed)
        tasks.append(("P3", ([], 0, seed)))
        for child in explore.children(probe, 0, bound):
            tasks.append(("P3", (child, bound, seed)))
    with Pool() as pool:
        res = pool.map(f"{MODULE}:shard", tasks, soft=900, hard=1000)
    res = chk.isolate(f"{MODULE}:shard", tasks, res, split=lambda t: [(t[0], [c]) for c in t[1]] if t[0] != "P3" else [],
                      case_of=lambda s: {"case": s[1][0]}, sig_of=lambda s, st: sig(s[1][0], "interpreter-died" if st == "crash" else "hang"),
                      library_alone=_library_alone_single)
    for t, r in zip(tasks, res):
        chk.merge_pool([r], plane=t[0])
    if not only or "P7" in only:
        softs = [int(200e6), int(256e6), int(256e6) + 4, int(256e6) + 4096, int(300e6), int(1e9)]
        p7 = [[(c, s_) for s_ in softs] for c in (["COPY", "LZMA2"] if tier == "quick" else ["COPY", "LZMA2", "BZIP2", "ZSTD", "X86+LZMA", "LZMA2+AES" ])]
        with Pool() as pool:
            r7 = pool.map(f"{MODULE}:shard_p7", p7, soft=600)
        chk.merge_pool(r7, plane="P7")
    return chk.finish(
        rule=(
            "P1: every chain (quick: one per decoder family +-AES; thorough: all 114 constructible chains) x single member of every size in "
            "S(64) x textures, and 25 two-member solid lists, with the I/O block rebound to 64 and 61 bytes and the extraction chunk to 7; "
            "P2: chains x sizes around 32 KiB and 1 MiB at the real constants; P3: choice-tree exploration of (chain, header mode, target "
            f"kind incl. multi-volume 64/100/4096, member count 0..3, name class, size, chunk limit, writestr/writef, open mode w / x) with <= {bound} "
            "deviations from (LZMA2, encoded, BytesIO, one ASCII member); P4: every documented parameter value; P6: multi-volume targets as a full product volume size {64,72,100,150,512 (thorough: 10 sizes)} x header raw/encoded/encrypted x 0/1/3 members x chain, so that header and packed streams straddle 1, 2, 3+ volume files; P5: solid folders of 4..5 members over the full product of sizes {1,10,64,74,130} around a 64-byte block, with and without a 7-byte extraction chunk; P7: a three-member solid archive read in a child process whose RLIMIT_DATA soft limit is 200 MB .. 1 GB (py7zr derives its chunk limit from it). Each case is written by "
            "py7zr, reopened, and compared by getnames, extractall(factory) and extractall(path). Distinct by case digest; non-trivial = "
            "at least one non-empty member reached the byte comparison."
        ),
        assumptions=[
            "scaled planes rebind get_default_blocksize/get_memory_limit (the only size constants on the data path); anomalies are confirmed at real constants before being reported",
            "7zAES key derivation is memoised (pure function); IVs stay random",
            "a case that kills the interpreter is not judged when the codec library alone dies or fails on the same data (pyppmd 1.1.1 segfaults on some incompressible inputs of 2 MiB)",
            "BCJ+PPMd cases run in forked children; a child's death is reported only if a brand-new interpreter dies on the same case too (a forked child inherits pyppmd's state from the worker)",
        ],
        exhaustive=False,
        p3_deviation_bound=bound,
    )
