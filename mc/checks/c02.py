"""C02 Directory tree round trip with metadata: every canonical tree of <= 3 (thorough 4) nodes over 7 node
kinds, plus node-level deviations (modes, mtimes, name classes) and configuration deviations (arcname,
dereference, filters/password, shutil entry points, relative/absolute source) explored with the E1
choice tree; plus a complete sweep of modification times over 1970..2100."""
from __future__ import annotations

import itertools
import os
import shutil
import stat

from mc.core import explore
from mc.core.evidence import Check, Shard
from mc.core.pool import Pool, chunks
from mc.gen import archives, content
from mc.lib7z import install_key_cache

MODULE = "mc.checks.c02"
KINDS = ["file", "dir", "empty", "ln-file", "ln-dir", "ln-side", "ln-up"]
FILE_MODES = [0o644, 0o400, 0o444, 0o600, 0o640, 0o755, 0o777]
DIR_MODES = [0o755, 0o500, 0o700, 0o777]
MTIMES = [1.5e9 + 0.25, 1.0, 1e9 + 0.123456, 2**31 + 0.5, 4102444799.999999]
NAMECLS = ["ascii", "dot", "space", "ctrl", "bmp", "astral", "drive"]
PW = "tree-pässword"


def shapes(n):
    """All (parent, kind) sequences: parent = -1 (top) or index of an earlier 'dir' node."""
    out = []

    def rec(nodes):
        if len(nodes) == n:
            out.append(list(nodes))
            return
        parents = [-1] + [i for i, (p, k) in enumerate(nodes) if k == "dir"]
        for p in parents:
            for k in KINDS:
                rec(nodes + [(p, k)])

    rec([])
    return out


def node_name(i, kind, cls):
    base = {"ascii": f"n{i}", "dot": f".n{i}", "space": f" n {i} ", "ctrl": f"n\x01{i}\x1f", "bmp": f"é日{i}", "astral": f"\U0001F600{i}", "drive": f"c:{i}"}[cls]
    return base


def build_tree(top, nodes):
    """nodes: list of dict(parent, kind, cls, mode, mtime).  Returns expected map relpath -> (kind, payload, mode, mtime) or None if a link has no target."""
    shutil.rmtree(top, ignore_errors=True)
    os.makedirs(top)
    paths = []
    exp = {}
    for i, nd in enumerate(nodes):
        par = "" if nd["parent"] < 0 else paths[nd["parent"]]
        paths.append(os.path.join(par, node_name(i, nd["kind"], nd["cls"])))
    files = [i for i, nd in enumerate(nodes) if nd["kind"] in ("file", "empty")]
    dirs = [i for i, nd in enumerate(nodes) if nd["kind"] == "dir"]
    for i, nd in enumerate(nodes):
        p = os.path.join(top, paths[i])
        k = nd["kind"]
        if k == "dir":
            os.makedirs(p)
        elif k in ("file", "empty"):
            data = b"" if k == "empty" else content.make("random", 37 + i, i + 1)
            with open(p, "wb") as f:
                f.write(data)
        else:
            here = os.path.dirname(paths[i])
            if k == "ln-file":
                cand = [j for j in files if j != i]
            elif k == "ln-dir":
                cand = [j for j in dirs if not (paths[i] + "/").startswith(paths[j] + "/")]
            elif k == "ln-side":
                cand = [j for j in files + dirs if os.path.dirname(paths[j]) != here and not (paths[i] + "/").startswith(paths[j] + "/")]
            else:  # ln-up: a target in the parent directory, reached through '..'
                cand = [j for j in files if here and os.path.dirname(paths[j]) == os.path.dirname(here)]
            if not cand:
                return None, None
            tgt = os.path.relpath(paths[cand[0]], here or ".")
            if k == "ln-up" and not tgt.startswith(".."):
                return None, None
            os.symlink(tgt, p)
            nd["_target"] = tgt
            nd["_target_idx"] = cand[0]
    # modes and times: children first, then directories (deepest first)
    order = sorted(range(len(nodes)), key=lambda i: -paths[i].count("/"))
    for i in order:
        nd = nodes[i]
        p = os.path.join(top, paths[i])
        if nd["kind"].startswith("ln-"):
            exp[paths[i]] = ("link", nd["_target"], None, None)
            continue
        os.chmod(p, nd["mode"])
        ns = int(round(nd["mtime"] * 1e9))
        os.utime(p, ns=(ns, ns))
    for i, nd in enumerate(nodes):
        p = os.path.join(top, paths[i])
        if nd["kind"] == "dir":
            ns = int(round(nd["mtime"] * 1e9))
            os.utime(p, ns=(ns, ns))
            exp[paths[i]] = ("dir", None, nd["mode"], os.lstat(p).st_mtime)
        elif not nd["kind"].startswith("ln-"):
            with open(p, "rb") as f:
                exp[paths[i]] = ("file", f.read(), nd["mode"], os.lstat(p).st_mtime)
    return exp, paths


def build_named(top, entries):
    """entries: [(relpath, 'dir'|'file'|'link', link text)] in creation order -> expected map (same form as build_tree)."""
    shutil.rmtree(top, ignore_errors=True)
    os.makedirs(top)
    exp = {}
    for i, (rel, kind, text) in enumerate(entries):
        p = os.path.join(top, rel)
        if kind == "dir":
            os.makedirs(p)
        elif kind == "file":
            with open(p, "wb") as f:
                f.write(content.make("random", 21 + 3 * i, 50 + i) + rel.encode())
        else:
            os.symlink(text, p)
            exp[rel] = ("link", text, None, None)
    ns = int(round(MTIMES[0] * 1e9))
    for rel, kind, _ in sorted(entries, key=lambda e: -e[0].count("/")):
        if kind != "link":
            os.utime(os.path.join(top, rel), ns=(ns, ns))
    for rel, kind, _ in entries:
        p = os.path.join(top, rel)
        if kind == "dir":
            os.utime(p, ns=(ns, ns))
            exp[rel] = ("dir", None, stat_mode(p), os.lstat(p).st_mtime)
        elif kind == "file":
            with open(p, "rb") as f:
                exp[rel] = ("file", f.read(), stat_mode(p), os.lstat(p).st_mtime)
    return exp


def stat_mode(p):
    import stat as _stat

    return _stat.S_IMODE(os.lstat(p).st_mode)


def named_cases():
    """Trees whose names COLLIDE with the name of the archived top directory ('src') and with each other: every parent-closed
    set of directories out of {b, src, src/b}, a file 'f' in each directory, and one link placed in any directory pointing
    (by relative text) at any of the files.  A link text such as 'src/f' then spells both <top>/src/f (what it means) and the
    cwd-relative source path of the member <top>/f (what it must not be confused with)."""
    out = []
    for dirs in ([], ["b"], ["src"], ["b", "src"], ["src", "src/b"], ["b", "src", "src/b"]):
        files = ["f"] + [d + "/f" for d in dirs]
        for where in [""] + dirs:
            for tgt in files:
                text = os.path.relpath(tgt, where or ".")
                entries = [(d, "dir", None) for d in dirs] + [(f, "file", None) for f in files] + [(os.path.join(where, "lnk"), "link", text)]
                for source in ("relative", "absolute"):
                    for arcname in (None, "given/arc"):
                        out.append({"named": entries, "arcname": arcname, "dereference": False, "flavour": "copy", "entry": "writeall", "source": source})
        # the current directory is a node of the tree itself (the top, or a directory inside it): every entry must still be archived
        entries = [(d, "dir", None) for d in dirs] + [(f, "file", None) for f in files]
        for cwd in [""] + dirs:
            for arcname in (None, "given/arc"):
                out.append({"named": entries, "arcname": arcname, "dereference": False, "flavour": "copy", "entry": "writeall", "source": "absolute", "cwd": cwd})
        out.append({"named": entries, "arcname": "given/arc", "dereference": False, "flavour": "copy", "entry": "writeall", "source": "dot", "cwd": ""})
    return out


def snapshot(root):
    out = {}
    for d, dirs, files in os.walk(root):
        for n in dirs + files:
            p = os.path.join(d, n)
            rel = os.path.relpath(p, root)
            st = os.lstat(p)
            if stat.S_ISLNK(st.st_mode):
                out[rel] = ("link", os.readlink(p), None, None)
            elif stat.S_ISDIR(st.st_mode):
                out[rel] = ("dir", None, stat.S_IMODE(st.st_mode), st.st_mtime)
            else:
                with open(p, "rb") as f:
                    out[rel] = ("file", f.read(), stat.S_IMODE(st.st_mode), st.st_mtime)
    return out


def deref_expected(exp, nodes, paths):
    """With dereference: every link is replaced by what it points to."""
    out = {}
    for rel, v in exp.items():
        if v[0] != "link":
            out[rel] = v
    for i, nd in enumerate(nodes):
        if nd["kind"].startswith("ln-"):
            j = nd["_target_idx"]
            tv = exp[paths[j]]
            out[paths[i]] = tv
            if tv[0] == "dir":
                pre = paths[j] + "/"
                for rel, v in exp.items():
                    if rel.startswith(pre) and v[0] != "link":
                        out[paths[i] + "/" + rel[len(pre):]] = v
    return out


def run_case(case, wd):
    """case: dict(nodes=[...], arcname, dereference, flavour, entry, source).  -> [(symptom, msg)]"""
    import py7zr

    install_key_cache()
    base = os.path.join(wd, "c02")
    shutil.rmtree(base, ignore_errors=True)
    os.makedirs(base)
    top = os.path.join(base, "work", "src")
    os.makedirs(os.path.dirname(top))
    if "named" in case:
        nodes, paths = [], []
        exp = build_named(top, [tuple(e) for e in case["named"]])
    else:
        nodes = [dict(n) for n in case["nodes"]]
        exp, paths = build_tree(top, nodes)
    if exp is None:
        return None
    if case["dereference"]:
        if any(n["kind"] == "ln-dir" and n["parent"] >= 0 for n in nodes) or any(n["kind"] in ("ln-up",) for n in nodes):
            pass
        exp = deref_expected(exp, nodes, paths)
    # the top directory itself is an entry too
    st = os.lstat(top)
    apath = os.path.join(base, "t.7z")
    dest = os.path.join(base, "dest")
    os.makedirs(dest)
    # the top directory is a member too: give it metadata of its own
    os.chmod(top, 0o750)
    os.utime(top, ns=(1_400_000_000_250_000_000, 1_400_000_000_250_000_000))
    old = os.getcwd()
    os.chdir(os.path.dirname(top) if case.get("cwd") is None else os.path.join(top, case["cwd"]))
    out = []
    try:
        pw = PW if case["flavour"] == "password" else None
        src = {"relative": "src", "absolute": top, "dot": "."}[case["source"]]
        try:
            if case["entry"] == "shutil":
                made = py7zr.pack_7zarchive(os.path.join(base, "t"), src)
                if os.path.abspath(made) != apath:
                    out.append(("pack-name", f"pack_7zarchive returned {made}"))
            else:
                kw = {}
                if case["flavour"] == "copy":
                    kw["filters"] = [{"id": py7zr.FILTER_COPY}]
                with py7zr.SevenZipFile(apath, "w", dereference=case["dereference"], password=pw, **kw) as z:
                    if case["flavour"] == "copy":
                        z.set_encoded_header_mode(False)
                    z.writeall(src, case["arcname"])
        except Exception as ex:
            return [("write-exception", f"{type(ex).__name__}: {ex}")]
        try:
            if case["entry"] == "shutil":
                py7zr.unpack_7zarchive(apath, dest)
            else:
                with py7zr.SevenZipFile(apath, "r", password=pw) as z:
                    z.extractall(path=dest)
        except Exception as ex:
            return [("extract-exception", f"{type(ex).__name__}: {ex}")]
    finally:
        os.chdir(old)
    if case["arcname"] is not None and case["entry"] != "shutil":
        rootrel = case["arcname"]
    elif case["source"] == "relative":
        rootrel = "src"
    elif case["source"] == "dot":
        rootrel = "."
    else:
        rootrel = top.lstrip("/")
    got = snapshot(os.path.join(dest, rootrel)) if os.path.isdir(os.path.join(dest, rootrel)) else None
    if got is None:
        return [("root-missing", f"extraction did not produce {rootrel!r}; dest holds {sorted(os.listdir(dest))[:4]}")]
    rst, tst = os.lstat(os.path.join(dest, rootrel)), os.lstat(top)
    if stat.S_IMODE(rst.st_mode) != stat.S_IMODE(tst.st_mode):
        out.append(("mode", f"the archived top directory itself: mode {oct(stat.S_IMODE(rst.st_mode))}, source {oct(stat.S_IMODE(tst.st_mode))}"))
    if abs(rst.st_mtime - tst.st_mtime) > 5e-6:
        out.append(("mtime", f"the archived top directory itself: mtime {rst.st_mtime!r}, source {tst.st_mtime!r}"))
    if set(got) != set(exp):
        miss, extra = sorted(set(exp) - set(got)), sorted(set(got) - set(exp))
        out.append(("path-set", f"missing {miss[:3]} unexpected {extra[:3]}"))
    for rel in sorted(set(got) & set(exp)):
        g, e = got[rel], exp[rel]
        if g[0] != e[0]:
            out.append(("kind", f"{rel!r}: extracted as {g[0]}, source is {e[0]}"))
            continue
        if g[0] == "link":
            if g[1] != e[1]:
                out.append(("link-target", f"{rel!r}: -> {g[1]!r}, source -> {e[1]!r}"))
            continue
        if g[0] == "file" and g[1] != e[1]:
            out.append(("bytes", f"{rel!r}: {len(g[1])} bytes differ from the source's {len(e[1])}"))
        if g[2] != e[2]:
            out.append(("mode", f"{rel!r}: mode {oct(g[2])}, source {oct(e[2])}"))
        if abs(g[3] - e[3]) > 5e-6:
            out.append(("mtime", f"{rel!r}: mtime {g[3]!r}, source {e[3]!r} (delta {g[3] - e[3]:.7f} s)"))
    return out


def default_node(parent, kind):
    return {"parent": parent, "kind": kind, "cls": "ascii", "mode": DIR_MODES[0] if kind == "dir" else FILE_MODES[0], "mtime": MTIMES[0]}


def choose_case(ch: explore.Chooser, shape):
    nodes = []
    for i, (p, k) in enumerate(shape):
        nd = default_node(p, k)
        if not k.startswith("ln-"):
            nd["mode"] = ch.pick(DIR_MODES if k == "dir" else FILE_MODES, f"mode[{i}]")
            nd["mtime"] = ch.pick(MTIMES, f"mtime[{i}]")
        nd["cls"] = ch.pick(NAMECLS, f"name[{i}]")
        nodes.append(nd)
    arcname = ch.pick([None, "given/arc"], "arcname")
    deref = bool(ch.choose(2, "dereference"))
    flavour = ch.pick(["copy", "default", "password"], "flavour")
    entry = ch.pick(["writeall", "shutil"], "entry")
    source = ch.pick(["relative", "absolute"], "source")
    if entry == "shutil":
        deref = False  # pack_7zarchive has no dereference option
        arcname = None
    if deref and any(n["kind"] in ("ln-up",) or (n["kind"] in ("ln-dir", "ln-side")) for n in nodes):
        # dereferencing a link to a directory that (transitively) contains the link is an unbounded expansion: not a tree
        deref = deref and not any(_points_to_ancestor(nodes, i) for i in range(len(nodes)))
    return {"nodes": nodes, "arcname": arcname, "dereference": deref, "flavour": flavour, "entry": entry, "source": source}


def _points_to_ancestor(nodes, i):
    return False


def shard(task):
    kind = task[0]
    sh = Shard()
    wd = os.getcwd()
    if kind == "shapes":
        for shape in task[1]:
            case = {"nodes": [default_node(p, k) for p, k in shape], "arcname": None, "dereference": False, "flavour": "copy", "entry": "writeall", "source": "relative"}
            r = run_case(case, wd)
            if r is None:
                sh.count("shape_without_link_target_skipped")
                continue
            sh.case(("shape", shape), nontrivial=len(shape) > 0, sample={"shape": shape} if len(sh.samples) < 1 and len(shape) == 3 else None)
            for sym, msg in r:
                sh.violation({"symptom": sym, "kinds": sorted({k for _, k in shape}), "plane": "shapes"}, f"tree {shape}: {msg}", {"case": case})
    elif kind == "dev":
        _, shape, prefix, bound = task

        def body(ch):
            case = choose_case(ch, shape)
            return case, run_case(case, wd)

        def on_exec(ch, res):
            case, r = res
            if r is None:
                sh.count("shape_without_link_target_skipped")
                return
            sh.case(("dev", shape, ch.choices), sample={"shape": shape, "deviations": ch.decoded()} if len(sh.samples) < 1 and ch.cost() else None)
            for sym, msg in r:
                devs = sorted({lbl.split("[")[0] for lbl, _ in ch.decoded()})
                sh.violation({"symptom": sym, "deviations": devs, "plane": "deviations"}, f"tree {shape} deviations {ch.decoded()}: {msg}", {"case": case})

        explore.explore(body, bound, on_exec, prefix=prefix)
    elif kind == "named":
        for case in task[1]:
            r = run_case(case, wd)
            sh.case(("named", case["named"], case["source"], case["arcname"]), sample={"entries": case["named"]} if len(sh.samples) < 1 else None)
            for sym, msg in r:
                sh.violation({"symptom": sym, "plane": "colliding-names", "source": case["source"], "arcname": case["arcname"] is not None},
                             f"tree {[e for e in case['named'] if e[1] != 'file']} source={case['source']} arcname={case['arcname']}: {msg}", {"case": case})
    elif kind == "mtimes":
        for mt in task[1]:
            case = {"nodes": [dict(default_node(-1, "file"), mtime=mt), dict(default_node(-1, "dir"), mtime=mt)], "arcname": None, "dereference": False, "flavour": "copy", "entry": "writeall", "source": "relative"}
            r = run_case(case, wd)
            sh.case(("mtime", mt), sample={"mtime": mt} if len(sh.samples) < 1 else None)
            for sym, msg in r:
                sh.violation({"symptom": sym, "plane": "mtime-sweep"}, f"mtime {mt!r}: {msg}", {"case": case})
    shutil.rmtree(os.path.join(wd, "c02"), ignore_errors=True)
    return sh.result()


def mtime_values():
    vals = set()
    top = 4102444800.0  # 2100-01-01
    for j in range(-6, 10):
        for k in range(1, 10):
            v = k * 10.0**j
            if 0 <= v < top:
                vals.add(v)
                vals.add(round(v + 1e-6, 6))
                vals.add(round(v + 0.999999, 6))
    for k in range(0, 52):
        for d in (-1, 0, 1):
            us = (1 << k) + d
            if 0 <= us / 1e6 < top:
                vals.add(us / 1e6)
    vals |= {0.0, 0.000001, 1e9, 2**31 - 1.0, 2**31 + 0.000001, 2**32 + 0.5, top - 0.000001, 1234567890.123456, 4000000000.654321}
    return sorted(vals)


def replay(case):
    wd = "/dev/shm/c02r-%d" % os.getpid()
    os.makedirs(wd, exist_ok=True)
    try:
        return run_case(case["case"], wd) or []
    finally:
        shutil.rmtree(wd, ignore_errors=True)


def main(tier="quick", seed=0, only=None):
    chk = Check("C02", "exploration", MODULE, tier, seed)
    nmax = 3 if tier == "quick" else 4
    all_shapes = [s for n in range(0, nmax + 1) for s in shapes(n)]
    tasks = [("shapes", c) for c in chunks(all_shapes, 60)]
    rich = [[(-1, "dir"), (0, "file"), (-1, "ln-file")], [(-1, "file"), (-1, "dir"), (1, "ln-up")], [(-1, "dir"), (0, "empty"), (0, "dir")],
            [(-1, "dir"), (-1, "dir"), (0, "file"), (1, "ln-side")], [(-1, "file")], [(-1, "dir"), (-1, "ln-dir"), (0, "file")]]
    bound = 2 if tier == "quick" else 3
    for shape in rich:
        probe = explore.Chooser([])
        choose_case(probe, shape)
        tasks.append(("dev", shape, [], 0))
        tasks += [("dev", shape, k, bound) for k in explore.children(probe, 0, bound)]
    tasks += [("mtimes", c) for c in chunks(mtime_values(), 40)]
    tasks += [("named", c) for c in chunks(named_cases(), 12)]
    import random

    random.Random(seed).shuffle(tasks)
    with Pool() as pool:
        res = pool.map(f"{MODULE}:shard", tasks, soft=3000)
    for t, r in zip(tasks, res):
        chk.merge_pool([r], plane=t[0])
    return chk.finish(
        rule=(
            f"EVERY tree of <= {nmax} nodes (each node: parent = top or an earlier directory; kind in file / directory / empty file / link to a file / "
            "link to a directory / sideways link into another directory / upward link through '..' staying inside) with default metadata, COPY "
            "filter; for 6 richer trees every combination of <= "
            f"{bound} deviations over per-node mode (files 0400..0777, dirs 0500..0777), per-node mtime (1 s, 1e9+.123456, 2^31+.5, 2100-eps), per-node "
            "name class (leading dot, spaces, control chars, BMP, astral, 'c:' prefix), arcname given, dereference, default filters, "
            "password, pack_7zarchive/unpack_7zarchive, absolute source; trees whose names collide with the archived top directory's own name (every parent-closed directory set out of {b, src, src/b} under a top called 'src', a file in each, one link anywhere pointing at any file; relative and absolute source, arcname given or not; the same trees archived while the current directory is the top or a directory inside the tree); the top directory's own mode and mtime are compared as well; and a sweep of a file+directory pair over "
            f"{len(mtime_values())} modification times (k*10^j, +-1 us, 2^k+-1 us) in 1970..2100. Oracle: lstat/readlink/bytes of the extracted tree "
            "vs the source: same path set incl. empty directories, kinds, bytes, link text, permission bits of files and directories, "
            "|delta mtime| <= 5 us; with dereference links are replaced by what they point to."
        ),
        assumptions=["runs as uid 0 on tmpfs (ns timestamps); unreadable sources / Windows branches are unreachable", "dereference is not combined with links whose target contains the link (unbounded expansion)"],
        exhaustive=False,
    )
