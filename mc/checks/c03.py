"""C03 Extraction never writes outside the destination: exhaustive sequences of hostile entries built by
the independent writer (py7zr's own writer refuses most of these names), extracted by the real code into
a jail; everything around the destination is snapshotted (incl. st_ctime_ns, which cannot be set back)
before and after, and an audit-hook tripwire stops anything that would leave the scratch area."""
from __future__ import annotations

import io
import itertools
import os
import shutil
import stat
import sys

from mc.core.evidence import Check, Shard, digest
from mc.core.pool import Pool, chunks
from mc.ref import ref7z

MODULE = "mc.checks.c03"
DEPTH = "l1/l2/l3/l4/l5/l6"
T0 = 132223104000000000

_GUARD = {"on": False, "top": None, "hits": []}
_HOOKED = False
WRITE_EVENTS = {"os.mkdir", "os.symlink", "os.rename", "os.remove", "os.rmdir", "os.chmod", "os.utime", "os.truncate", "os.link", "os.chown"}


def _hook(event, args):
    if not _GUARD["on"]:
        return
    if event == "open":
        path, mode, flags = args[0], args[1], args[2]
        if not isinstance(path, (str, bytes, os.PathLike)):
            return
        if not (flags & (os.O_WRONLY | os.O_RDWR | os.O_CREAT | os.O_TRUNC | os.O_APPEND)):
            return
    elif event in WRITE_EVENTS:
        # os.symlink(src, dst) / os.link(src, dst): the location written is dst; os.rename: the destination
        path = args[1] if event in ("os.symlink", "os.link", "os.rename") else args[0]
        if not isinstance(path, (str, bytes, os.PathLike)):
            return
    else:
        return
    p = os.fsdecode(path)
    parent = os.path.realpath(os.path.dirname(os.path.abspath(p)))
    if not (parent + "/").startswith(_GUARD["top"] + "/") and parent != _GUARD["top"]:
        _GUARD["hits"].append((event, p))
        raise PermissionError(f"tripwire: {event} {p!r} leaves the scratch area")


def install_guard(top):
    global _HOOKED
    _GUARD["top"] = os.path.realpath(top)
    if not _HOOKED:
        sys.addaudithook(_hook)
        _HOOKED = True


# ---------------------------------------------------------------------------------------------
def layout_paths(wd):
    top = os.path.join(wd, "c03")
    root = os.path.join(top, DEPTH, "root")
    return top, root, os.path.join(root, "jail"), os.path.join(root, "jail", "dest"), os.path.join(root, "outside")


def reset_world(wd, initial):
    top, root, jail, dest, outside = layout_paths(wd)
    shutil.rmtree(top, ignore_errors=True)
    os.makedirs(dest)
    os.makedirs(outside)
    with open(os.path.join(outside, "victim.txt"), "wb") as f:
        f.write(b"do not touch")
    with open(os.path.join(jail, "sibling.txt"), "wb") as f:
        f.write(b"sibling of the destination")
    os.makedirs(os.path.join(outside, "a"))
    with open(os.path.join(outside, "a", "inner.txt"), "wb") as f:
        f.write(b"outside/a/inner")
    # a spelling of the destination that passes through a link and comes back with '..': root/w/sub/../dest IS the
    # destination (sub -> ../jail/adir), while folding the '..' textually would give root/w/dest
    os.makedirs(os.path.join(root, "w"))
    os.makedirs(os.path.join(jail, "adir"))
    os.symlink("../jail/adir", os.path.join(root, "w", "sub"))
    if initial == "a-dir":
        os.makedirs(os.path.join(dest, "a"))
        with open(os.path.join(dest, "a", "keep.txt"), "wb") as f:
            f.write(b"keep")
    elif initial == "a-file":
        with open(os.path.join(dest, "a"), "wb") as f:
            f.write(b"i am a file")
    return top, root, jail, dest, outside


def snapshot(top, dest):
    """Everything under top except the destination subtree."""
    out = {}
    dest = os.path.normpath(dest)
    for d, dirs, files in os.walk(top):
        keep = []
        for x in dirs:
            p = os.path.join(d, x)
            if os.path.normpath(p) == dest:
                pass  # the destination itself is the boundary: neither it nor its content is compared
            else:
                keep.append(x)
        dirs[:] = keep  # (os.walk lists symlinked directories here but does not follow them)
        for n in keep + files:
            p = os.path.join(d, n)
            out[p] = _st(p)
    out[top] = _st(top, meta_only=True)
    return out


def _st(p, meta_only=False):
    st = os.lstat(p)
    if stat.S_ISLNK(st.st_mode):
        return ("link", os.readlink(p), st.st_mode, st.st_mtime_ns, st.st_ctime_ns)
    if stat.S_ISDIR(st.st_mode):
        # for the destination itself only identity matters (its content is allowed to change; its mtime follows)
        if meta_only:
            return ("dir", None, st.st_mode)
        return ("dir", None, st.st_mode, st.st_mtime_ns, st.st_ctime_ns)
    with open(p, "rb") as f:
        return ("file", f.read(), st.st_mode, st.st_mtime_ns, st.st_ctime_ns)


def entry_members(entries, jail_dest, outside):
    """entries: [(name, kind, target)] -> ref7z members.  Placeholders {IN} / {OUT} are absolute paths."""
    ms = []
    for i, (name, kind, target) in enumerate(entries):
        name = name.replace("{IN}", jail_dest).replace("{OUT}", outside)
        if kind == "file":
            ms.append({"name": name, "kind": "file", "data": b"EVIL-%d" % i, "attr": ref7z.unix_attr("file", 0o644), "mtime": T0})
        elif kind == "empty":  # zero-length file stored without a stream (EmptyStream + EmptyFile), as 7-Zip writes it
            ms.append({"name": name, "kind": "emptyfile", "data": b"", "attr": ref7z.unix_attr("file", 0o644), "mtime": T0})
        elif kind == "dir":
            ms.append({"name": name, "kind": "dir", "data": None, "attr": ref7z.unix_attr("dir", 0o777), "mtime": T0})
        else:
            tgt = target.replace("{IN}", jail_dest).replace("{OUT}", outside)
            ms.append({"name": name, "kind": "symlink", "data": tgt.encode(), "attr": ref7z.unix_attr("symlink", 0o777), "mtime": T0})
    return ms


class SeqThreads:
    """Deterministic stand-in for threading.Thread: all started workers run at the first join(), in creation order
    or in reverse creation order (the two extreme schedules)."""

    def __init__(self, reverse):
        self.reverse = reverse
        self.pending = []
        outer = self

        class T:
            def __init__(self, target=None, args=(), kwargs=None, daemon=None):
                self.target, self.args, self.kwargs = target, args, kwargs or {}
                self.done = False

            def start(self):
                outer.pending.append(self)

            def join(self, timeout=None):
                if outer.pending:
                    todo = outer.pending[::-1] if outer.reverse else list(outer.pending)
                    outer.pending = []
                    for t in todo:
                        t.target(*t.args, **t.kwargs)
                        t.done = True

            def is_alive(self):
                return False

        self.Thread = T


def run_case(entries, config, wd):
    """-> [(symptom, msg)]"""
    import py7zr
    import py7zr.py7zr as impl

    destform, initial, opened = config
    top, root, jail, dest, outside = reset_world(wd, initial)
    install_guard(top)
    members = entry_members(entries, dest, outside)
    data_idx = [i for i, m in enumerate(members) if m["kind"] in ("file", "symlink")]
    if opened == "stream":
        L = {"folders": [data_idx] if data_idx else [], "chains": [[("COPY", {})]] if data_idx else []}
    else:
        L = {"folders": [[i] for i in data_idx], "chains": [[("COPY", {})] for _ in data_idx]}
    blob = ref7z.write(members, L)
    apath = os.path.join(root, "hostile.7z")
    with open(apath, "wb") as f:
        f.write(blob)
    before = snapshot(top, dest)
    out = []
    old = os.getcwd()
    saved_thread = impl.Thread
    try:
        if destform == "absolute":
            target = dest
        elif destform == "dotdot-link":
            target = os.path.join(root, "w", "sub", "..", "dest")
        elif destform == "relative":
            os.chdir(jail)
            target = "dest"
        else:
            os.chdir(dest)
            target = None
        if opened != "stream":
            impl.Thread = SeqThreads(reverse=(opened == "path-reverse")).Thread
        _GUARD["hits"].clear()
        _GUARD["on"] = True
        try:
            src = io.BytesIO(blob) if opened == "stream" else apath
            with py7zr.SevenZipFile(src) as z:
                z.extractall(path=target)
            outcome = "returned"
        except Exception as ex:
            outcome = f"raised {type(ex).__name__}"
        finally:
            _GUARD["on"] = False
    finally:
        impl.Thread = saved_thread
        os.chdir(old)
    if _GUARD["hits"]:
        out.append(("escape-beyond-scratch", f"extraction ({outcome}) attempted {_GUARD['hits'][:2]}"))
    after = snapshot(top, dest)
    changed = []
    for p in sorted(set(before) | set(after)):
        if before.get(p) != after.get(p):
            b, a = before.get(p), after.get(p)
            what = "created" if b is None else ("removed" if a is None else ("content" if b[:2] != a[:2] else ("mode" if b[2] != a[2] else "retimed")))
            changed.append((os.path.relpath(p, root), what))
    if changed:
        out.append(("outside-changed", f"extraction {outcome}; outside the destination: {changed[:4]}"))
    return out


NAMES1 = ["a", "b", "..", ".", "dest"]


def names(maxcomp, rich=True):
    out = []
    comps = ["a", "b", "..", ".", "", "dest"] if rich else ["a", "b", ".."]
    for n in range(1, maxcomp + 1):
        for c in itertools.product(comps, repeat=n):
            s = "/".join(c)
            if s and s not in out:
                out.append(s)
                if rich:
                    out.append("/" + s)
    if rich:
        out += ["{IN}/a", "{OUT}/evil", "{OUT}/a/evil2"]
    return out


TARGETS = [".", "..", "../..", "a", "a/..", "b/../..", "{IN}", "{OUT}", "../../outside", "../sibling.txt", "../../outside/victim.txt"]


def entry_types(name_list, targets=TARGETS, earlier=()):
    out = []
    for n in name_list:
        out.append((n, "file", None))
        out.append((n, "empty", None))
        out.append((n, "dir", None))
        for t in list(targets) + list(earlier):
            out.append((n, "symlink", t))
    return out


CONFIGS = [("absolute", "empty", "stream"), ("relative", "empty", "stream"), ("none", "empty", "stream"), ("absolute", "a-dir", "stream"),
           ("absolute", "a-file", "stream"), ("absolute", "empty", "path"), ("absolute", "empty", "path-reverse"), ("dotdot-link", "empty", "stream")]


def canon_shape(entries):
    """Signature of a hostile sequence with names renamed canonically, so the same shape matches and another alarms."""
    ren = {}

    def r(s):
        if s is None:
            return None
        parts = []
        for c in s.replace("{IN}", "<IN>").replace("{OUT}", "<OUT>").split("/"):
            if c in ("a", "b"):
                ren.setdefault(c, "xy"[len(ren)] if len(ren) < 2 else c)
                parts.append(ren[c])
            else:
                parts.append(c)
        return "/".join(parts)

    return " ".join(f"{k[0].upper()}({r(n)}{'->' + r(t) if t else ''})" for n, k, t in entries)


def gen_cases(plane, tier):
    if plane == "singles":
        extra = [".//a", "/.//a", ".//dest", "a//b", ".//..//a", "./a/./b", "a/..//..//b", "..//a", ".///a"] if tier == "quick" else []
        for e in entry_types(names(3 if tier != "quick" else 2) + extra):
            for cfg in CONFIGS:
                yield [e], cfg
    elif plane == "pairs":
        nl = names(1) + ["a/b", "a/..", "a/../b", "../a", "b/a", "a/a", "/a", "dest/a"] if tier == "quick" else names(2)
        tg = [".", "..", "../..", "a", "{OUT}"] if tier == "quick" else TARGETS
        types = entry_types(nl, tg)
        for i, e1 in enumerate(types):
            for j, e2 in enumerate(types):
                cfgs = [CONFIGS[(i * 31 + j) % len(CONFIGS)]]  # configurations rotate over the pairs (all 7 on every single)
                for cfg in cfgs:
                    yield [e1, e2], cfg
    elif plane == "triples":
        nl = ["a", "b", "a/b"] if tier == "quick" else ["a", "b", "a/b", "b/a", "a/a"]
        tg = [".", "..", "a", "b", "../sibling.txt", "{OUT}"] if tier == "quick" else [".", "..", "../..", "a", "b", "a/..", "{OUT}", "b/../..", "../sibling.txt"]
        types = entry_types(nl, tg)
        for i, e1 in enumerate(types):
            for j, e2 in enumerate(types):
                for k, e3 in enumerate(types):
                    yield [e1, e2, e3], CONFIGS[(i + 3 * j + 7 * k) % len(CONFIGS)]
    elif plane == "swaps":
        yield from _swap_cases(tier)
    elif plane == "longpaths":
        # a directory D close to PATH_MAX, reached again through a short alias s -> D; below it (through the alias) a link M
        # that climbs out.  The resolved path of M is longer than PATH_MAX - the kernel still follows it through the alias,
        # while a path-resolving check that cannot lstat() such a path may take M for a plain name.  z -> . only supplies
        # lexical depth for M's '..'s.
        for comp in (200, 120):
            for d_depth in ((14, 17) if comp == 200 else (24, 30)):
                D = "/".join(["a" * comp] * d_depth)
                for c_depth in (2, 3, 4):
                    C = "/".join(["c" * 250] * c_depth)
                    base = "/".join(["z"] * (d_depth + 3)) + "/s/" + C  # (the kernel follows at most 40 links per lookup)
                    for k in (0, 1, 2):
                        up = "../" * (d_depth + c_depth + k)
                        for victim in ("sibling.txt", "evil"):
                            ents = [(D, "dir", None), ("z", "symlink", "."), ("s", "symlink", D), (base + "/M", "symlink", up),
                                    (base + "/M/" + victim, "file", None)]
                            for cfg in CONFIGS:
                                yield ents, cfg
    elif plane == "chains":
        # 4..5 entries: link chains and files written through earlier links
        files = [(n, k, None) for n in ["a/evil", "b/evil", "a/b/evil", "b/a/evil", "a/a/evil", "evil", "a", "b", "a/b", "b/a", "./a", "./b", "b/.", "a/", "./a/b"] for k in ("file", "empty")]
        plans = [(2, ["a", "b", "a/b", "b/a", "a/a"], [".", "..", "a", "b", "a/..", "../sibling.txt"]), (3, ["a", "b", "a/b", "b/a"], [".", "..", "a/..", "../sibling.txt"])]
        if tier != "quick":
            plans = [(2, ["a", "b", "a/b", "b/a", "a/a", "b/b"], TARGETS), (3, ["a", "b", "a/b", "b/a", "a/a", "b/b"], [".", "..", "a", "a/..", "../sibling.txt"]), (4, ["a", "b", "a/b", "b/a"], [".", "..", "a/.."])]
        for n, lnames, ltargets in plans:
            links = [(nm, "symlink", t) for nm in lnames for t in ltargets]
            for ls in itertools.product(links, repeat=n):
                if len({x[0] for x in ls}) < n:
                    continue
                for f in files:
                    yield list(ls) + [f], CONFIGS[0]


# ---------------------------------------------------------------------------------------------
# interleavings of the per-folder worker threads (archive opened by name, one folder per member): the check of an
# output location and the creation of the file are separate steps, and another folder's thread may create links between them
def interleave_lists(tier):
    out = [
        [("a/sibling.txt", "file", None), ("c", "symlink", "."), ("a", "symlink", "c/..")],
        [("a/evil", "file", None), ("a", "symlink", "..")],
        [("c", "symlink", "."), ("a", "symlink", "c/.."), ("a/sibling.txt", "file", None)],
        [("a/sibling.txt", "empty", None), ("a/x", "file", None), ("c", "symlink", "."), ("a", "symlink", "c/..")],
    ]
    if tier != "quick":
        out += [
            [("a/b/sibling.txt", "file", None), ("c", "symlink", "."), ("a/b", "symlink", "../c/.."), ("a", "dir", None)],
            [("a/sub", "dir", None), ("a/sub/f", "file", None), ("c", "symlink", "."), ("a", "symlink", "c/../../outside")],
            [("a/victim.txt", "file", None), ("a", "symlink", "{OUT}")],
            [("b", "symlink", "."), ("a/sibling.txt", "file", None), ("a", "symlink", "b/..")],
        ]
    return out


def run_interleaved(entries, choices, wd):
    """One controlled execution of extractall(path) on a by-name archive with one folder per data member.
    -> (chooser, [(symptom, msg)])"""
    import pathlib

    import py7zr

    from mc.core import explore
    from mc.core.sched import Scheduler
    from mc.lib7z import seams

    top, root, jail, dest, outside = reset_world(wd, "empty")
    install_guard(top)
    members = entry_members(entries, dest, outside)
    data_idx = [i for i, m in enumerate(members) if m["kind"] in ("file", "symlink")]
    blob = ref7z.write(members, {"folders": [[i] for i in data_idx], "chains": [[("COPY", {})] for _ in data_idx]})
    apath = os.path.join(root, "hostile.7z")
    with open(apath, "wb") as f:
        f.write(blob)
    before = snapshot(top, dest)
    ch = explore.Chooser(choices)
    sched = Scheduler(ch, line_trace=True)
    real_open = open

    def sched_open(file, mode="r", *a, **k):
        sched.point("archive.open", None)
        return real_open(file, mode, *a, **k)

    def body():
        with py7zr.SevenZipFile(apath) as z:
            z.extractall(path=dest)

    _GUARD["hits"].clear()
    _GUARD["on"] = True
    try:
        with seams(py7zr__Thread=sched.Thread, py7zr__queue=sched.queue_module, py7zr__open=sched_open, py7zr__time=sched.time_module):
            res, exc = sched.run_main(body)
    finally:
        _GUARD["on"] = False
    out = []
    if sched.deadlock:
        out.append(("deadlock", "the workers deadlocked"))
    if _GUARD["hits"]:
        out.append(("escape-beyond-scratch", f"attempted {_GUARD['hits'][:2]}"))
    after = snapshot(top, dest)
    changed = []
    for p in sorted(set(before) | set(after)):
        if before.get(p) != after.get(p):
            b, a = before.get(p), after.get(p)
            what = "created" if b is None else ("removed" if a is None else ("content" if b[:2] != a[:2] else ("mode" if b[2] != a[2] else "retimed")))
            changed.append((os.path.relpath(p, root), what))
    if changed:
        outcome = "returned" if exc is None else f"raised {type(exc).__name__}"
        out.append(("outside-changed", f"extraction {outcome}; outside the destination: {changed[:4]}"))
    return ch, out, sched


def shard_interleave(task):
    entries, bound = task
    from mc.core import explore

    sh = Shard()
    wd = os.getcwd()
    stats = {"points": 0}

    try:
        stack = [[]]
        while stack:
            p = stack.pop()
            ch, r, sched = run_interleaved(entries, p, wd)
            stats["points"] += sched.points
            sh.case((entries, ch.choices), nontrivial=True, sample={"entries": entries, "schedule": ch.decoded()[:6]} if len(sh.samples) < 1 and ch.cost() else None)
            sh.count(f"preemptions={ch.cost()}")
            sh.count("transitions", len(ch.trace))
            for sym, msg in r:
                sh.violation({"symptom": sym, "shape": canon_shape(entries), "opened": "path-interleaved"}, f"{entries} schedule {ch.decoded()[:4]}: {msg}",
                             {"entries": entries, "choices": ch.choices, "interleaved": True})
            stack.extend(reversed(explore.children(ch, len(p), bound)))
    except Exception as ex:
        sh.count("harness_case_error")
        sh.note("harness_errors", f"{type(ex).__name__}: {str(ex)[:120]}")
    sh.count("scheduling_points", stats["points"])
    shutil.rmtree(layout_paths(wd)[0], ignore_errors=True)
    return sh.result()


def _swap_cases(tier):
    """A file is extracted through a harmless link, then a LATER member re-points that link (same output path under another
    spelling, so that it is not treated as a duplicate name): whatever the extractor still remembers about the file's path
    (times and modes to apply at the end) now refers to another place."""
    first = [("b", "symlink", "."), ("a", "symlink", ".")]
    files = [(n, k, None) for n in ("a/sibling.txt", "a/victim.txt", "a/evil", "a/a/sibling.txt") for k in ("file", "empty")] + [("a/sub", "dir", None)]
    respell = ["./a", "a/.", "a/", ".//a", "b/a"] if tier != "quick" else ["./a", "a/.", "b/a"]
    targets = ["b/..", "..", "b/../../outside", "b/../..", "a/..", "{OUT}"] if tier != "quick" else ["b/..", "..", "b/../../outside"]
    for f in files:
        for nm in respell:
            for t in targets:
                for cfg in CONFIGS:
                    yield first + [f, (nm, "symlink", t)], cfg
                    yield first + [f, (nm, "symlink", t), ("c", "file", None)], cfg


def shard(task):
    plane, tier, lo, hi = task
    sh = Shard()
    wd = os.getcwd()
    for entries, cfg in itertools.islice(gen_cases(plane, tier), lo, hi):
        try:
            r = run_case(entries, cfg, wd)
        except Exception as ex:
            sh.count("harness_case_error")
            sh.note("harness_errors", f"{type(ex).__name__}: {str(ex)[:80]}")
            continue
        hostile = any(".." in (n + "/" + (t or "")) or n.startswith("/") or "{" in n + (t or "") or k == "symlink" for n, k, t in entries)
        sh.note("entry_kinds", "+".join(sorted({k for _, k, _ in entries})))
        sh.case((entries, cfg), nontrivial=hostile, sample={"entries": entries, "config": cfg} if len(sh.samples) < 1 and len(entries) > 1 and hostile else None)
        for sym, msg in r:
            shown = [tuple(x if not isinstance(x, str) or len(x) < 60 else x[:20] + f"...({len(x)} chars)..." + x[-24:] for x in e) for e in entries]
            sh.violation({"symptom": sym, "shape": canon_shape(entries), "opened": cfg[2].split("-")[0]}, f"{shown} config={cfg}: {msg[:400]}", {"entries": entries, "config": list(cfg)})
    top = layout_paths(wd)[0]
    shutil.rmtree(top, ignore_errors=True)
    return sh.result()


def replay(case):
    wd = "/dev/shm/c03r-%d" % os.getpid()
    os.makedirs(wd, exist_ok=True)
    if case.get("interleaved"):
        try:
            return run_interleaved([tuple(e) for e in case["entries"]], list(case["choices"]), wd)[1]
        finally:
            shutil.rmtree(wd, ignore_errors=True)
    try:
        return run_case([tuple(e) for e in case["entries"]], tuple(case["config"]), wd)
    finally:
        shutil.rmtree(wd, ignore_errors=True)


def main(tier="quick", seed=0, only=None):
    chk = Check("C03", "exploration", MODULE, tier, seed)
    tasks = []
    for plane in ("singles", "pairs", "triples", "chains", "swaps", "longpaths"):
        if only and plane not in only:
            continue
        n = sum(1 for _ in gen_cases(plane, tier))
        step = 1500
        tasks += [(plane, tier, lo, min(lo + step, n)) for lo in range(0, n, step)]
        chk.extra.setdefault("plane_sizes", {})[plane] = n
    import random

    random.Random(seed).shuffle(tasks)
    with Pool() as pool:
        res = pool.map(f"{MODULE}:shard", tasks, soft=3000)
        itasks = [(e, 1 if tier == "quick" else 2) for e in interleave_lists(tier)] if (not only or "interleave" in only) else []
        ires = pool.map(f"{MODULE}:shard_interleave", itasks, soft=3000)
    for t, r in zip(tasks, res):
        chk.merge_pool([r], plane=t[0])
    chk.merge_pool(ires, plane="interleave")
    return chk.finish(
        rule=(
            "archives written by ref7z; entries = (name, kind, target): names = all paths of <= 2 (thorough 3) components over {a,b,..,.,'',dest} "
            "with and without a leading '/', plus absolute paths inside and outside the jail; kinds = file, directory, symlink to each of "
            "{., .., ../.., a, a/.., b/../.., abs-inside, abs-outside, ../../outside}. ALL single entries x 8 configurations (destination "
            "absolute / relative / None=cwd / spelled through a link and back with '..'; destination empty / 'a' is a directory / 'a' is a file; opened by stream = sequential, by path = "
            "one folder per member, workers run in folder order and in reverse order); ALL ordered pairs and ALL ordered triples over the "
            "tier's reduced alphabets; link chains of 3 (thorough 4) links followed by a file written through them; swaps: a file or directory extracted through a harmless link that a later member re-points (same output path under another spelling) to the parent, to a sibling directory or outside; longpaths: a directory of 14..30 long components (total just below PATH_MAX), a short alias to it, and below the alias a link whose resolved path exceeds PATH_MAX and that climbs 0..2 levels above the destination, then a file through it; interleave: archives opened by name with one folder per member (a file in one folder, the links that would redirect its directory in others) under EVERY interleaving of the per-folder worker threads with at most 1 (thorough 2) preemptions, every executed source line of py7zr in a worker thread being a scheduling point. Oracle: byte/mode/mtime/"
            "ctime snapshot of everything around the destination identical before and after, whether extraction returned or raised; "
            "tripwire on write-intent audit events leaving the scratch area. Non-trivial = the sequence contains a link, '..', or an absolute path."
        ),
        assumptions=["runs as uid 0 (permission denials cannot mask an escape)", "outside the interleave plane the schedules of the parallel branch are reduced to the two extreme orders"],
        exhaustive=True,
    )
