"""C04 Damage is detected: exhaustive single-bit flips, truncations, overwrites, insertions/removals,
bursts, block swaps and extensions of small valid archives; each image is opened, extracted and
integrity-tested by the real code and compared with the pristine member map."""
from __future__ import annotations

import io
import resource
import signal

from mc.core.device import damage_images
from mc.core.evidence import Check, Shard, digest
from mc.core.pool import Pool, SoftTimeout
from mc.gen import bases as basegen
from mc.lib7z import Collect, install_key_cache

MODULE = "mc.checks.c04"
PER_IMAGE_S = 20.0


def observe(img: bytes, password):
    """-> dict(extract=('raise', cls)|('ok', [(n, bytes)]), testzip=..., test=...)"""
    import py7zr

    obs = {}
    try:
        with py7zr.SevenZipFile(io.BytesIO(img), password=password) as z:
            f = Collect()
            try:
                z.extractall(factory=f)
                obs["extract"] = ("ok", f.as_list())
            except Exception as ex:
                obs["extract"] = ("raise", type(ex).__name__)
    except Exception as ex:
        obs["extract"] = ("raise", type(ex).__name__)
        obs["open"] = "raise"
        obs["testzip"] = ("raise", type(ex).__name__)
        obs["test"] = ("raise", type(ex).__name__)
        obs["path"] = ("raise", type(ex).__name__)
        return obs
    for what in ("testzip", "test"):
        try:
            with py7zr.SevenZipFile(io.BytesIO(img), password=password) as z:
                obs[what] = ("ok", getattr(z, what)())
        except Exception as ex:
            obs[what] = ("raise", type(ex).__name__)
    # extraction to a directory: files by their bytes, symbolic links by their text
    import os
    import shutil

    from mc.lib7z import tree_snapshot

    dest = os.path.join(os.getcwd(), "c04-dest")
    shutil.rmtree(dest, ignore_errors=True)
    try:
        with py7zr.SevenZipFile(io.BytesIO(img), password=password) as z:
            z.extractall(path=dest)
        snap = tree_snapshot(dest)
        obs["path"] = ("ok", sorted((k, v[1] if v[0] == "file" else v[1].encode()) for k, v in snap.items() if v[0] in ("file", "link")))
    except Exception as ex:
        obs["path"] = ("raise", type(ex).__name__)
    shutil.rmtree(dest, ignore_errors=True)
    return obs


def judge(obs, pristine):
    out = []
    pm = dict(pristine)
    kind, val = obs["extract"]
    same = False
    if kind == "ok":
        for n, d in val:
            if n not in pm:
                out.append(("renamed-delivery", f"extraction succeeded and delivered a member named {n!r} that the pristine archive does not have"))
            elif pm[n] != d:
                out.append(("altered-delivery", f"extraction succeeded and delivered {len(d)} different bytes for {n!r}"))
        same = sorted(val) == sorted(pristine)
    pk, pv = obs.get("path", ("raise", None))
    if pk == "ok":
        for n, d in pv:
            if n not in pm:
                out.append(("renamed-delivery", f"extraction to a directory succeeded and created {n!r}, which the pristine archive does not have"))
            elif pm[n] != d:
                out.append(("altered-delivery", f"extraction to a directory succeeded and {n!r} holds different {'link text' if len(d) < 64 and b'/' not in d and n.endswith('link') else 'bytes'} ({d[:24]!r}...)"))
    tz = obs["testzip"]
    if tz == ("ok", None) and not same:
        out.append(("testzip-certifies-bad", f"testzip() reports no damage but extraction {'raised ' + str(val) if kind == 'raise' else 'does not deliver the pristine members'}"))
    t = obs["test"]
    if t == ("ok", True) and not same:
        out.append(("test-certifies-bad", f"test() returns True but extraction {'raised ' + str(val) if kind == 'raise' else 'does not deliver the pristine members'}"))
    return out


def region(base, off):
    a, b = base["packed"]
    if off < 32:
        return "signature"
    if a <= off < b:
        return "packed"
    return "header"


def shard(task):
    bidx, tier, kinds, lo, hi = task
    install_key_cache()
    resource.setrlimit(resource.RLIMIT_AS, (6 << 30, resource.RLIM_INFINITY))
    base = basegen.all_bases(tier)[bidx]
    sh = Shard()
    if lo == 0:
        obs = observe(base["blob"], base["password"])
        sh.case(("pristine", base["name"]), sample={"base": base["name"], "size": len(base["blob"])})
        if obs["extract"] != ("ok", base["pristine"]) and not (obs["extract"][0] == "ok" and sorted(obs["extract"][1]) == sorted(base["pristine"])):
            sh.violation({"base": base["name"], "symptom": "pristine-not-extractable"}, f"pristine archive: {obs['extract']!r:.200}", {"base": bidx, "tier": tier, "label": None})
        if obs["testzip"] != ("ok", None):
            sh.violation({"base": base["name"], "symptom": "pristine-testzip"}, f"testzip() on the intact archive: {obs['testzip']}", {"base": bidx, "tier": tier, "label": None})
        if obs["test"] not in (("ok", True), ("ok", None)):
            sh.violation({"base": base["name"], "symptom": "pristine-test"}, f"test() on the intact archive: {obs['test']}", {"base": bidx, "tier": tier, "label": None})
    images = list(damage_images(base["blob"], base["packed"], kinds))[lo:hi]
    for label, img in images:
        if img == base["blob"]:
            continue
        signal.setitimer(signal.ITIMER_REAL, PER_IMAGE_S)
        try:
            obs = observe(img, base["password"])
        except SoftTimeout:
            sh.count("hang_not_judged_here")
            sh.case((base["name"], label), nontrivial=False)
            continue
        finally:
            signal.setitimer(signal.ITIMER_REAL, 0)
        # re-arm the pool's own soft deadline is not needed: PER_IMAGE_S bounds every step
        sh.case(digest(img), nontrivial=obs.get("open") != "raise" or label[1] >= 6,
                sample={"base": base["name"], "damage": label, "extract": _short(obs["extract"]), "testzip": _short(obs["testzip"]), "test": _short(obs["test"])} if len(sh.samples) < 2 and obs["extract"][0] == "raise" and label[1] > 40 else None)
        sh.count("outcome:" + (obs["extract"][1] if obs["extract"][0] == "raise" else "extracted"))
        for sym, msg in judge(obs, base["pristine"]):
            sh.violation({"base": base["name"], "symptom": sym, "region": region(base, label[1]), "damage": label[0]}, f"{base['name']} {label}: {msg}",
                         {"base": bidx, "tier": tier, "label": list(label)})
    return sh.result()


def _short(o):
    if o[0] == "ok" and isinstance(o[1], list):
        return ["ok", [(n, len(d)) for n, d in o[1]]]
    return list(o)


def replay(case):
    base = basegen.all_bases(case["tier"])[case["base"]]
    if case["label"] is None:
        obs = observe(base["blob"], base["password"])
        return [("pristine", _short(obs["extract"]), obs["testzip"], obs["test"])]
    want = tuple(case["label"])
    for label, img in damage_images(base["blob"], base["packed"], (want[0],)):
        if tuple(label) == want:
            return judge(observe(img, base["password"]), base["pristine"])
    return []


def main(tier="quick", seed=0, only=None):
    chk = Check("C04", "fault_enumeration", MODULE, tier, seed)
    bases = basegen.all_bases(tier)
    tasks = []
    for i, b in enumerate(bases):
        if not b["has_crc"]:
            continue  # the property quantifies over archives with per-file CRCs; without any CRC damage is undetectable by design
        n = sum(1 for _ in damage_images(b["blob"], b["packed"]))
        step = 800
        for lo in range(0, n, step):
            tasks.append((i, tier, None, lo, min(lo + step, n)))
    import random

    random.Random(seed).shuffle(tasks)
    with Pool() as pool:
        res = pool.map(f"{MODULE}:shard", tasks, soft=1800, hard=2400)
    for t, r in zip(tasks, res):
        chk.merge_pool([r], plane=bases[t[0]]["name"])
    chk.extra["bases"] = [{"name": b["name"], "bytes": len(b["blob"])} for b in bases if b["has_crc"]]
    return chk.finish(
        rule=(
            f"{len(bases)} base archives (py7zr-written: codec families x raw/encoded/encrypted header x 1..4 folders; reference-written: folder "
            "CRCs, packed CRCs, gaps, AES with 2^4 rounds); for each: EVERY single-bit flip, EVERY truncation length, byte overwrites by "
            "{00, FF, b+1} at every offset, one-byte insertion/removal at every offset, bursts of 2/8/16/32 bits at every offset, all swaps of "
            "two 16-byte blocks of the packed area, extension by 1/16/4096 bytes. Oracle: extraction raises or every delivered (name, bytes) "
            "is in the pristine map; testzip() None / test() True only if extraction delivers exactly the pristine members; pristine images "
            "test clean. Distinct by image digest; non-trivial = the image got past open() or the damage lies beyond the magic."
        ),
        assumptions=["images are offered through BytesIO (sequential extraction path)", "hangs are counted and left to C05"],
        exhaustive=True,
    )
