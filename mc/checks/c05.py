"""C05 Any input terminates in bounded time and memory; the interpreter survives.

Inputs: (a) every truncation / single-bit flip of the small base archives and splices of two bases at
section boundaries, (b) every single-token mutation (and section drop/dup/swap) of ten reference-written
headers with all CRCs re-sealed, (c) missing / wrong passwords.  On every input that opens, every call
sequence up to the tier's length over {getnames, list, test, testzip, extractall, extract(T), reset}
is run on one session object under a per-call time budget and an address-space limit."""
from __future__ import annotations

import io
import itertools
import os
import resource
import signal
import time

from mc.core.device import damage_images
from mc.core.evidence import Check, Shard, digest
from mc.core.pool import Pool, SoftTimeout
from mc.gen import bases as basegen
from mc.gen import mutations
from mc.lib7z import Collect, install_key_cache

MODULE = "mc.checks.c05"
OPS = ["getnames", "list", "test", "testzip", "extractall", "extract", "reset"]
MEM_HEADROOM = 1 << 30


def budget(n_bytes: int) -> float:
    return 8.0 + 50e-6 * n_bytes + 75.0 * 0  # KDF allowance handled per input (see aes_cycles)


def sequences(maxlen: int):
    for n in range(1, maxlen + 1):
        yield from itertools.product(OPS, repeat=n)


def do(z, op):
    if op == "getnames":
        return z.getnames()
    if op == "list":
        return [i.filename for i in z.list()]
    if op == "test":
        return z.test()
    if op == "testzip":
        return z.testzip()
    if op == "reset":
        return z.reset()
    f = Collect()
    if op == "extractall":
        z.extractall(factory=f)
    else:
        names = z.getnames()
        z.extract(targets=names[:1] + ["absent"], factory=f)
    return None


def _unlimited_child(a):
    img, password, ops, as_file = a[:4]
    import py7zr

    if len(a) > 4 and a[4] == "fresh-limit":
        # the same limit as the shard's, but counted from what THIS process has now: a full gibibyte of headroom again
        with open("/proc/self/statm") as f:
            vm = int(f.read().split()[0]) * os.sysconf("SC_PAGE_SIZE")
        resource.setrlimit(resource.RLIMIT_AS, (vm + MEM_HEADROOM, resource.RLIM_INFINITY))
    else:
        resource.setrlimit(resource.RLIMIT_AS, (resource.RLIM_INFINITY, resource.RLIM_INFINITY))
    with open("/proc/self/statm") as f:
        rss0 = int(f.read().split()[1]) * os.sysconf("SC_PAGE_SIZE")
    outcome = "returned"
    try:
        if as_file:
            fpath = os.path.join(os.getcwd(), "c05-input-unlimited.7z")
            with open(fpath, "wb") as fh:
                fh.write(img)
            z = py7zr.SevenZipFile(fpath, password=password)
        else:
            z = py7zr.SevenZipFile(io.BytesIO(img), password=password)
        for op in ops:
            do(z, op)
    except MemoryError:
        outcome = "MemoryError"
    except BaseException as ex:  # noqa
        outcome = type(ex).__name__
    peak = resource.getrusage(resource.RUSAGE_SELF).ru_maxrss * 1024
    return outcome, max(0, peak - rss0)


def _unlimited_verdict(img, password, ops, as_file):
    from mc.core.pool import forked

    st, val = forked(_unlimited_child, (img, password, ops, as_file), timeout=120)
    if st == "ok":
        return val
    return (st, 1 << 40)  # the child died or hung without the limit: certainly not a harmless quirk


def probe(img: bytes, password, maxlen: int, progress, label, as_file: bool = False):
    """Run open + all call sequences.  -> list of (symptom, detail).  Never raises except SoftTimeout at the outermost level."""
    import py7zr

    out = []
    t_budget = budget(len(img))
    counts = {"opened": 0, "calls": 0}
    replay_ops = [[]]

    def timed(fn, what):
        signal.setitimer(signal.ITIMER_REAL, t_budget)
        t0 = time.time()
        try:
            return ("ok", fn())
        except SoftTimeout:
            out.append(("hang", f"{what} did not finish within {t_budget:.1f} s"))
            return ("hang", None)
        except MemoryError:
            signal.setitimer(signal.ITIMER_REAL, 0)
            # Was memory really exhausted?  A codec extension may raise MemoryError as its generic failure on corrupt data
            # (pyppmd does) without asking for any: repeat the same calls in a child process WITHOUT the limit and look.
            verdict = _unlimited_verdict(img, password, replay_ops[0], as_file)
            if verdict[0] == "MemoryError" and verdict[1] < (256 << 20):
                counts["memoryerror_without_memory_pressure"] = counts.get("memoryerror_without_memory_pressure", 0) + 1
                return ("raise", "MemoryError")
            if verdict[0] not in ("crash", "hang") and verdict[1] < (256 << 20):
                # no memory needed without the limit: has this worker's headroom (set once per shard) been used up by the
                # cases before this one?  Repeat under the same limit counted from a fresh baseline.
                from mc.core.pool import forked

                st2, val2 = forked(_unlimited_child, (img, password, replay_ops[0], as_file, "fresh-limit"), timeout=120)
                if st2 == "ok" and val2[0] != "MemoryError":
                    counts["memoryerror_headroom_used_up_by_earlier_cases"] = counts.get("memoryerror_headroom_used_up_by_earlier_cases", 0) + 1
                    return ("raise", "MemoryError")
            out.append(("memory", f"{what} raised MemoryError under an address-space limit of baseline + 1 GiB (without the limit the same calls end with {verdict[0]} after the resident set grew by {verdict[1] >> 20} MiB)"))
            return ("memory", None)
        except Exception as ex:
            return ("raise", type(ex).__name__)
        except BaseException as ex:  # SystemExit, KeyboardInterrupt, GeneratorExit: not an ordinary exception
            out.append(("non-exception", f"{what} raised {type(ex).__name__}"))
            return ("base", None)
        finally:
            signal.setitimer(signal.ITIMER_REAL, 0)

    if as_file:
        # a real file opened by name: a buffered reader allocates what a read() asks for before it looks at the file size
        fpath = os.path.join(os.getcwd(), "c05-input.7z")
        with open(fpath, "wb") as fh:
            fh.write(img)

        def source():
            return fpath
    else:
        def source():
            return io.BytesIO(img)

    progress(label + " open")
    st, z = timed(lambda: py7zr.SevenZipFile(source(), password=password), "open")
    if st != "ok":
        return out, counts
    counts["opened"] = 1
    try:
        z.close()
    except Exception:
        pass
    for seq in sequences(maxlen):
        progress(label + " " + ",".join(seq))
        st, z = timed(lambda: py7zr.SevenZipFile(source(), password=password), "open")
        if st != "ok":
            break
        bad = False
        for i, op in enumerate(seq):
            counts["calls"] += 1
            replay_ops[0] = list(seq[: i + 1])
            st, _ = timed(lambda: do(z, op), f"{list(seq[: i + 1])}")
            if st in ("hang", "memory", "base"):
                bad = True
                break
        try:
            z.close()
        except Exception:
            pass
        if bad:
            break  # one hang / memory blow-up / non-exception per input is enough; do not burn the budget 56 times
    return out, counts


def shard(task):
    kind, arg, maxlen, tier = task[:4]
    metered = len(task) > 4 and task[4] == "metered"
    install_key_cache()
    if metered:
        # second opinion after a crash under the address-space limit: no limit, peak RSS growth per input instead
        resource.setrlimit(resource.RLIMIT_AS, (resource.RLIM_INFINITY, resource.RLIM_INFINITY))
    else:
        # address-space limit: what the process has now plus 1 GiB
        with open("/proc/self/statm") as f:
            vm = int(f.read().split()[0]) * os.sysconf("SC_PAGE_SIZE")
        resource.setrlimit(resource.RLIMIT_AS, (vm + MEM_HEADROOM, resource.RLIM_INFINITY))
    sh = Shard()
    pfile = os.path.join(os.path.dirname(os.getcwd()), f"progress-{digest([kind, arg])}.txt")

    def progress(s):
        with open(pfile, "w") as f:
            f.write(f"{kind}:{arg}: {s}")

    slow = {"n": 0}

    def run(img, pw, label, sig_extra, case, as_file=False):
        if slow["n"] >= 3:
            # three inputs of this shard already blew the budget: the remaining ones are left unexplored (counted), the verdict is out
            sh.count("inputs_skipped_after_3_budget_violations_in_shard")
            return
        rss0 = resource.getrusage(resource.RUSAGE_SELF).ru_maxrss
        viol, counts = probe(img, pw, maxlen, progress, label, as_file=as_file)
        if metered and (resource.getrusage(resource.RUSAGE_SELF).ru_maxrss - rss0) * 1024 > MEM_HEADROOM:
            viol.append(("memory", "peak resident set grew by more than 1 GiB while processing this input"))
        sh.case(digest(img), nontrivial=bool(counts["opened"]), sample={"input": label, "bytes": len(img), "opened": bool(counts["opened"]), "calls": counts["calls"]} if len(sh.samples) < 2 and counts["opened"] else None)
        sh.count("inputs_opened", counts["opened"])
        sh.count("memoryerror_without_memory_pressure_not_judged", counts.get("memoryerror_without_memory_pressure", 0))
        sh.count("calls", counts["calls"])
        if any(sym in ("hang", "memory") for sym, _ in viol):
            slow["n"] += 1
        seen = set()
        for sym, msg in viol:
            key = (sym, msg.split(" did not")[0][:60])
            if key in seen:
                continue
            seen.add(key)
            s = {"symptom": sym}
            s.update(sig_extra)
            sh.violation(s, f"{label}: {msg}", case)

    if kind == "damage":
        bidx, dk, lo, hi = arg
        base = basegen.all_bases(tier)[bidx]
        for label, img in list(damage_images(base["blob"], base["packed"], (dk,)))[lo:hi]:
            run(img, base["password"], f"{base['name']} {label}", {"input": "damage:" + dk, "base": base["name"]},
                {"kind": "damage", "base": bidx, "tier": tier, "label": list(label), "maxlen": maxlen})
    elif kind == "splice":
        bs = basegen.all_bases(tier)
        a, b = arg
        A, B = bs[a], bs[b]
        cuts_a = sorted({32, A["packed"][0], A["packed"][1], len(A["blob"]) - 1})
        cuts_b = sorted({32, B["packed"][0], B["packed"][1]})
        for ca in cuts_a:
            for cb in cuts_b:
                img = A["blob"][:ca] + B["blob"][cb:]
                run(img, A["password"] or B["password"], f"splice {A['name']}[:{ca}] + {B['name']}[{cb}:]", {"input": "splice"},
                    {"kind": "splice", "a": a, "b": b, "ca": ca, "cb": cb, "tier": tier, "maxlen": maxlen})
    elif kind == "tokens":
        bidx, lo, hi = arg
        base = mutations.build(mutations.base_archives()[bidx])
        for label, toks, outer in itertools.islice(mutations.mutants(base, PAIRS[tier]), lo, hi):
            try:
                img = mutations.seal(base, toks, outer)
            except Exception:
                sh.count("mutant_not_sealable")
                continue
            run(img, base["password"], f"{base['name']} {label}", {"input": "token", "field": label.split(":")[0].split("[")[0]},
                {"kind": "tokens", "base": bidx, "label": label, "maxlen": maxlen})
    elif kind == "scale":
        # well-formed (or nearly so) headers that are LARGE in one dimension: the time of open() must grow in proportion to the input.
        # Each family is built at n, 2n and 4n; four times the input taking more than ten times as long is super-linear.
        from mc.ref import ref7z as _ref

        def family(name, n):
            tiny = lambda i, kind="file", data=b"x": {"name": "f%d" % i, "kind": kind, "data": data, "mtime": None, "attr": None}  # noqa
            if name == "folders":      # n folders, n packed streams
                return _ref.write([tiny(i) for i in range(n)], {"folders": [[i] for i in range(n)], "chains": [[("COPY", {})]] * n, "crc": "none"})
            if name == "files":        # n members of one solid folder
                return _ref.write([tiny(i) for i in range(n)], {"folders": [list(range(n))], "chains": [[("COPY", {})]], "crc": "substream"})
            if name == "emptyfiles":   # n stream-less members
                return _ref.write([tiny(i, "emptyfile", b"") for i in range(n)], {})
            if name == "coders":       # one folder of n Copy coders chained by n-1 bind pairs
                return _ref.write([tiny(0)], {"folders": [[0]], "chains": [[("COPY", {})] * n], "crc": "none"})
            if name == "coders-x-files":   # one folder of n chained Copy coders holding n one-byte members (a product of two dimensions)
                return _ref.write([tiny(i) for i in range(n)], {"folders": [list(range(n))], "chains": [[("COPY", {})] * n], "crc": "none"})
            if name == "instreams-x-files":
                # one coder declaring n input streams (a BCJ2-like topology; the method is never looked at), n pack sizes of 0,
                # n one-byte members: about 4n bytes of header, nothing to decode
                N = _ref.enc_number
                folder = N(1) + bytes([0x14]) + b"\x03\x03\x01\x1b" + N(n) + N(1) + b"".join(N(i) for i in range(n))
                streams = (b"\x06" + N(0) + N(n) + b"\x09" + N(0) * n + b"\x00"
                           + b"\x07\x0b" + N(1) + b"\x00" + folder + b"\x0c" + N(n) + b"\x00"
                           + b"\x08\x0d" + N(n) + b"\x09" + N(1) * (n - 1) + b"\x00")
                hdr = b"\x01\x04" + streams + b"\x00" + b"\x05" + N(n) + b"\x00" + b"\x00"
                return _ref.seal(b"", hdr)
            if name == "dupnames":     # n files whose names property is followed by n/4 further (3-byte) names properties
                spec = ("scale-dup", [tiny(i, "emptyfile", b"") for i in range(n)], {}, None)
                base = mutations.build(spec)
                toks = [list(t) for t in base["tokens"]]
                end = max(i for i, t in enumerate(toks) if t[2] == "Files.end")
                toks[end:end] = [["raw", b"\x11\x01\x00", f"Files.dupnames[{j}]"] for j in range(n // 4)]
                return mutations.seal(base, toks)
            raise ValueError(name)

        import py7zr

        def timed_open(img, rounds):
            best = None
            for _ in range(rounds):
                t0 = time.perf_counter()
                try:
                    z = py7zr.SevenZipFile(io.BytesIO(img))
                    z.getnames()
                    z.close()
                except Exception:
                    pass
                dt = time.perf_counter() - t0
                best = dt if best is None else min(best, dt)
            return best

        def mem_open(img):
            import tracemalloc

            tracemalloc.start()
            try:
                z = py7zr.SevenZipFile(io.BytesIO(img))
                z.getnames()
                z.close()
            except MemoryError:
                oom.append(len(img))  # (the shard runs under the +1 GiB address-space limit of this check)
            except Exception:
                pass
            peak = tracemalloc.get_traced_memory()[1]
            tracemalloc.stop()
            return peak

        def superlinear(ts):
            return ts[2] > 0.5 and ts[1] / max(ts[0], 0.005) > 2.8 and ts[2] / max(ts[1], 0.005) > 2.8

        for name, n0 in arg:
            times, sizes = [], []
            oom = []
            try:
                imgs = [family(name, n) for n in (n0, 2 * n0, 4 * n0)]
                sizes = [len(i) for i in imgs]
                times = [timed_open(i, 3) for i in imgs]
                if superlinear(times):
                    # timing is noisy on a busy machine: a suspicion must survive a second, longer measurement
                    again = [timed_open(i, 5) for i in imgs]
                    times = [min(a, b) for a, b in zip(times, again)]
                    sh.count("scale_series_remeasured")
            except Exception as ex:
                sh.count("scale_family_not_buildable")
                sh.note("scale_build_errors", f"{name}: {type(ex).__name__}: {str(ex)[:60]}")
                continue
            mems = [mem_open(i) for i in imgs]
            sh.case(("scale", name, n0), nontrivial=True, sample={"family": name, "n": [n0, 2 * n0, 4 * n0], "bytes": sizes, "open_seconds": [round(t, 3) for t in times], "open_peak_MiB": [m >> 20 for m in mems]})
            if oom:
                sh.violation({"symptom": "memory-error", "input": "scale", "family": name},
                             f"{name}: open() raises MemoryError under the +1 GiB limit for an input of {oom[0]} bytes (n0 = {n0})",
                             {"kind": "scale", "family": name, "n0": n0, "tier": tier, "maxlen": maxlen})
            # memory: the same criterion (both doublings cost more than 2.8x) on the traced peak, once it is no longer small
            if mems[2] > (64 << 20) and mems[1] / max(mems[0], 1 << 20) > 2.8 and mems[2] / max(mems[1], 1 << 20) > 2.8:
                sh.violation({"symptom": "superlinear-memory", "input": "scale", "family": name},
                             f"{name}: open()+getnames() peaks at {mems[0] >> 20} / {mems[1] >> 20} / {mems[2] >> 20} MiB for inputs of {sizes[0]} / {sizes[1]} / {sizes[2]} bytes (n = {n0}, {2 * n0}, {4 * n0})",
                             {"kind": "scale", "family": name, "n0": n0, "tier": tier, "maxlen": maxlen})
            sh.count("calls", 6)
            r1, r2 = times[1] / max(times[0], 0.005), times[2] / max(times[1], 0.005)
            # linear work doubles when the input doubles; both doublings costing more than 2.8x (and a measurable total) is super-linear
            if superlinear(times) or times[2] > budget(sizes[2]):
                sh.violation({"symptom": "superlinear-open", "input": "scale", "family": name},
                             f"{name}: open()+getnames() takes {times[0]:.2f} s / {times[1]:.2f} s / {times[2]:.2f} s for inputs of {sizes[0]} / {sizes[1]} / {sizes[2]} bytes (n = {n0}, {2 * n0}, {4 * n0}): x{r1:.1f} and x{r2:.1f} per doubling",
                             {"kind": "scale", "family": name, "n0": n0, "tier": tier, "maxlen": maxlen})
    elif kind == "bombs":
        # a packed stream that expands to N bytes while the folder DECLARES 10: memory must stay proportional to input + declared output
        import tracemalloc

        from mc.ref import ref7z as _ref

        N = 32 << 20
        for codec in arg:
            members = [{"name": "bomb.bin", "kind": "file", "data": bytes(N), "mtime": 132223104000000000, "attr": 0x20}]
            spec = ("bomb-" + codec, members, {"folders": [[0]], "chains": [[(codec, {})]], "crc": "none"}, None)
            try:
                base = mutations.build(spec)
            except Exception as ex:
                sh.count("bomb_not_buildable")
                sh.note("bomb_build_errors", f"{codec}: {type(ex).__name__}")
                continue
            toks = [list(t) for t in base["tokens"]]
            hit = 0
            for t in toks:
                if t[0] == "num" and t[2].startswith("Main.Folder[0].unpacksize"):
                    t[1] = 10
                    hit += 1
            if not hit:
                raise RuntimeError("bomb: no unpack size token")
            img = mutations.seal(base, toks)
            for op in ("testzip", "extractall"):
                import py7zr

                tracemalloc.start()
                tracemalloc.reset_peak()
                b0 = tracemalloc.get_traced_memory()[0]
                outcome = "returned"
                try:
                    with py7zr.SevenZipFile(io.BytesIO(img)) as z:
                        do(z, op)
                except MemoryError:
                    outcome = "MemoryError"
                except Exception as ex:
                    outcome = type(ex).__name__
                peak = tracemalloc.get_traced_memory()[1] - b0
                tracemalloc.stop()
                allowed = 64 * (len(img) + 10) + (16 << 20)
                sh.case(("bomb", codec, op), nontrivial=True, sample={"bomb": codec, "archive_bytes": len(img), "expands_to": N, "declared": 10, "call": op, "peak_bytes": peak} if len(sh.samples) < 2 else None)
                sh.count("calls")
                if peak > allowed or outcome == "MemoryError":
                    sh.violation({"symptom": "memory-beyond-declared-output", "input": "bomb", "codec": codec},
                                 f"{codec} stream of {len(img)} bytes expanding to {N} bytes in a folder that declares 10: {op} {outcome} with a peak of {peak >> 20} MiB (allowed 64 x (input + declared) + 16 MiB = {allowed >> 20} MiB)",
                                 {"kind": "bomb", "codec": codec, "op": op, "tier": tier, "maxlen": maxlen})
    elif kind == "sighdr":
        # the 32-byte signature header: NextHeaderOffset / NextHeaderSize / NextHeaderCRC set to the boundary values, StartHeaderCRC
        # re-sealed; each input both as a stream and as a real file opened by name
        import struct
        import zlib

        for bidx in arg:
            base = basegen.all_bases(tier)[bidx]
            blob = base["blob"]
            ofs, size, crc = struct.unpack("<QQL", blob[12:32])
            for field, cur in (("offset", ofs), ("size", size), ("crc", crc)):
                vals = [v for v in mutations.NUM_VALUES if v < (1 << 64)] + [len(blob), len(blob) - 32, (1 << 31), (1 << 31) - 1] if field != "crc" else [0, 0xFFFFFFFF, crc ^ 1]
                for v in sorted(set(vals)):
                    if v == cur:
                        continue
                    o, z_, c = (v, size, crc) if field == "offset" else ((ofs, v, crc) if field == "size" else (ofs, size, v))
                    tail = struct.pack("<QQL", o, z_, c)
                    img = blob[:8] + struct.pack("<L", zlib.crc32(tail) & 0xFFFFFFFF) + tail + blob[32:]
                    for as_file in (False, True):
                        run(img, base["password"], f"{base['name']} next-header {field}={v} {'file' if as_file else 'stream'}", {"input": "signature-header", "field": field, "source": "file" if as_file else "stream"},
                            {"kind": "sighdr", "base": bidx, "tier": tier, "field": field, "value": v, "as_file": as_file, "maxlen": maxlen}, as_file=as_file)
    elif kind == "password":
        bs = [b for b in basegen.all_bases(tier) if b["password"]]
        for b in bs:
            for pw in (None, "", "wrong", b["password"][:-1], b["password"].upper(), b["password"] + "x"):
                run(b["blob"], pw, f"{b['name']} password={pw!r}", {"input": "password"}, {"kind": "password", "base": b["name"], "pw": pw, "tier": tier, "maxlen": maxlen})
    try:
        os.remove(pfile)
    except OSError:
        pass
    return sh.result()


def replay(case):
    signal.signal(signal.SIGALRM, lambda *a: (_ for _ in ()).throw(SoftTimeout()))
    install_key_cache()
    maxlen = case.get("maxlen", 2)
    if case["kind"] == "damage":
        base = basegen.all_bases(case["tier"])[case["base"]]
        want = tuple(case["label"])
        for label, img in damage_images(base["blob"], base["packed"], (want[0],)):
            if tuple(label) == want:
                return probe(img, base["password"], maxlen, lambda s: None, str(label))[0]
    if case["kind"] == "tokens":
        base = mutations.build(mutations.base_archives()[case["base"]])
        for label, toks, outer in mutations.mutants(base, "all"):
            if label == case["label"]:
                return probe(mutations.seal(base, toks, outer), base["password"], maxlen, lambda s: None, label)[0]
    if case["kind"] == "scale":
        r = shard(("scale", [(case["family"], case["n0"])], 1, case.get("tier", "quick")))
        return [(v["sig"]["symptom"], v["what"]) for v in r["violations"]]
    if case["kind"] == "bomb":
        r = shard(("bombs", [case["codec"]], 1, case.get("tier", "quick")))
        return [(v["sig"]["symptom"], v["what"]) for v in r["violations"]]
    if case["kind"] == "sighdr":
        import struct
        import zlib

        base = basegen.all_bases(case["tier"])[case["base"]]
        blob = base["blob"]
        ofs, size, crc = struct.unpack("<QQL", blob[12:32])
        v = case["value"]
        o, z_, c = (v, size, crc) if case["field"] == "offset" else ((ofs, v, crc) if case["field"] == "size" else (ofs, size, v))
        tail = struct.pack("<QQL", o, z_, c)
        img = blob[:8] + struct.pack("<L", zlib.crc32(tail) & 0xFFFFFFFF) + tail + blob[32:]
        return probe(img, base["password"], maxlen, lambda s: None, "sighdr", as_file=case["as_file"])[0]
    if case["kind"] == "splice":
        bs = basegen.all_bases(case["tier"])
        img = bs[case["a"]]["blob"][: case["ca"]] + bs[case["b"]]["blob"][case["cb"]:]
        return probe(img, bs[case["a"]]["password"] or bs[case["b"]]["password"], maxlen, lambda s: None, "splice")[0]
    if case["kind"] == "password":
        b = next(x for x in basegen.all_bases(case["tier"]) if x["name"] == case["base"])
        return probe(b["blob"], case["pw"], maxlen, lambda s: None, "password")[0]
    return []


PAIRS = {"quick": "end", "thorough": "all"}


def main(tier="quick", seed=0, only=None):
    chk = Check("C05", "fault_enumeration", MODULE, tier, seed)
    maxlen = 2 if tier == "quick" else 3
    bases = basegen.all_bases(tier)
    tasks = []
    for i, b in enumerate(bases):
        for dk in ("trunc", "flip"):
            n = sum(1 for _ in damage_images(b["blob"], b["packed"], (dk,)))
            step = 400
            # (call sequences of length 3 are kept for the structure-aware inputs; byte-level damage mostly lands in packed data,
            #  where every image opens and each extra level multiplies the work by 7)
            tasks += [("damage", (i, dk, lo, min(lo + step, n)), min(maxlen, 2), tier) for lo in range(0, n, step)]
    nb = len(bases) if tier != "quick" else min(len(bases), 6)
    tasks += [("splice", (a, b), maxlen, tier) for a in range(nb) for b in range(nb) if a != b]
    for i, spec in enumerate(mutations.base_archives()):
        base = mutations.build(spec)
        n = sum(1 for _ in mutations.mutants(base, PAIRS[tier]))
        step = 150
        tasks += [("tokens", (i, lo, min(lo + step, n)), maxlen, tier) for lo in range(0, n, step)]
    tasks.append(("password", None, maxlen, tier))
    tasks += [("bombs", [c], 1, tier) for c in ("LZMA2", "LZMA", "BZIP2", "DEFLATE", "DEFLATE64", "ZSTD", "BROTLI", "PPMD")]
    n0 = 6000 if tier == "quick" else 20000
    tasks += [("scale", [(fam, n0)], 1, tier) for fam in ("folders", "files", "emptyfiles", "coders", "dupnames")]
    tasks += [("scale", [(fam, n0 // 3)], 1, tier) for fam in ("coders-x-files", "instreams-x-files")]
    tasks += [("sighdr", [i], 1, tier) for i in range(min(len(bases), 4 if tier == "quick" else 12))]
    import random

    random.Random(seed).shuffle(tasks)
    root = None
    with Pool() as pool:
        root = pool.root
        results = []
        for idx, status, res in pool.run(f"{MODULE}:shard", tasks, soft=0, hard=1800):
            results.append((idx, status, res))
            if status == "crash" and len(tasks[idx]) == 4:
                # a C library may abort() when malloc fails under the artificial limit: decide without the limit
                try:
                    with open(os.path.join(root, f"progress-{digest([tasks[idx][0], tasks[idx][1]])}.txt")) as f:
                        chk.extra.setdefault("crash_under_rlimit_at", []).append(f.read()[:300])
                except OSError:
                    pass
                with Pool(1, tag="vpm") as second:  # (the outer pool is in the middle of run(): it cannot be re-entered)
                    retry = second.map(f"{MODULE}:shard", [tuple(tasks[idx]) + ("metered",)], soft=0, hard=1800)[0]
                if retry[0] == "ok":
                    results[-1] = (idx, "ok", retry[1])
                    chk.counters["crash_under_rlimit_rerun_metered_ok"] = chk.counters.get("crash_under_rlimit_rerun_metered_ok", 0) + 1
                    continue
                status, res = retry
            if status in ("hang", "crash"):
                # which input was being processed?  the worker leaves a progress note
                notes = []
                for fn in os.listdir(root):
                    if fn.startswith("progress-"):
                        try:
                            notes.append(open(os.path.join(root, fn)).read())
                        except OSError:
                            pass
                chk.violation({"symptom": "interpreter-died" if status == "crash" else "c-level-hang", "task": tasks[idx][0]},
                              f"worker {status} (exit {res}) while processing {tasks[idx][:2]}; progress notes: {notes[:3]}", {"kind": "task", "task": list(tasks[idx][:2])})
    for idx, status, res in results:
        if status == "ok":
            chk.merge(res, plane=tasks[idx][0])
        elif status not in ("hang", "crash"):
            chk.harness_error(f"{tasks[idx][:2]}: {status}: {str(res)[-600:]}")
    return chk.finish(
        rule=(
            f"inputs: every truncation length and every single-bit flip of {len(bases)} base archives; splices of two bases at the section "
            "boundaries {32, start of packed data, start of header}; every single-token mutation of 10 reference-written headers (NUMBER "
            "tokens set to {0,1,2^7k-1,2^7k,2^32-1,2^32,2^63-1,2^63,2^64-1}, every property id replaced by every id 0..26 and FF, every bit "
            "of every flag byte, bit vectors, CRCs, FILETIMEs, names, method ids, AES properties; for packed headers the same single-token mutations of the outer streams info that describes the packed header; two deviations: a count NUMBER set to 2^32 / 2^63-1 together with one property id replaced by End (thorough: by every id)), each section dropped / duplicated / "
            "swapped with its successor, FilesInfo property sizes left stale and re-fitted; all outer CRCs re-sealed (raw, LZMA- and "
            f"AES-encoded headers); missing and 5 wrong passwords; scaling series: seven families of headers large in one dimension (n folders and packed streams, n files in one folder, n stream-less files, n chained coders in one folder, n files with n/4 repeated name properties, n chained coders x n members of one folder, one coder with n input streams x n members) at n, 2n, 4n - open() must not take more than 2.8x as long at both doublings, nor may its traced peak memory (once above 64 MiB) grow by more than 2.8x at both; decompression bombs: for 8 codecs a packed stream expanding to 32 MiB in a folder that declares 10 bytes (peak Python-level memory, by tracemalloc, must stay within 64 x (input + declared output) + 16 MiB); the signature header's NextHeaderOffset / Size / CRC set to the boundary values with StartHeaderCRC re-sealed, each as a stream and as a real file opened by name. On every input that opens: every call sequence of length <= {maxlen} (byte-level damage: <= 2) over "
            f"{OPS} on one session (incl. extract twice without reset). Oracle: each call returns or raises an Exception within 8 s + 50 us/byte, "
            "no MemoryError with RLIMIT_AS = baseline + 1 GiB (a MemoryError is re-examined in a child process without the limit: raised again while the resident set grows by less than 256 MiB it is a codec's way of reporting corrupt data - counted, not judged; not raised again, neither without the limit nor under the same limit counted from a fresh baseline, the worker's headroom had been used up by earlier cases - counted, not judged), worker process alive. Non-trivial = the input got past open()."
        ),
        assumptions=["codec dictionary/model-size properties (LZMA, LZMA2, PPMd) are not mutated: a large dictionary is a legal declaration whose cost belongs to the codec"],
        exhaustive=True, max_sequence_length=maxlen,
    )
