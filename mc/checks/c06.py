"""C06 Reader conformance: differential against the independent writer.  Logical archives (ordered lists
of files / zero-length substreams / empty files / directories / symlinks with optional metadata) are
written by ref7z under every layout within a deviation bound of "what py7zr itself would emit", then read
by py7zr; names, kinds, sizes, times, attributes and bytes must be those handed to the writer.  Plus the
third-party fixtures, judged against ref7z.read."""
from __future__ import annotations

import io
import itertools
import os
import shutil
import stat

from mc.core import explore
from mc.core.evidence import Check, Shard
from mc.core.pool import Pool, chunks
from mc.lib7z import Collect, install_key_cache, tree_snapshot
from mc.ref import ref7z
from mc.selftest import PASSWORDS, fixtures

MODULE = "mc.checks.c06"
PW = "pw-ref"
KINDS = "FZEDL"  # file, zero-length substream, empty file (empty stream), directory, symlink
T0 = 132223104000000000


def compositions(n):
    """All ways to cut n items into contiguous non-empty groups (as lists of group sizes)."""
    if n == 0:
        return [[]]
    out = []
    for first in range(1, n + 1):
        for rest in compositions(n - first):
            out.append([first] + rest)
    return out


def logical_lists(tier):
    out = []
    maxlen = 3 if tier == "quick" else 4
    for n in range(0, maxlen + 1):
        out += ["".join(p) for p in itertools.product(KINDS, repeat=n)]
    out += ["DFEFD", "FDFDF", "EFDLF", "FFFFF", "DEDED", "LFLFD", "ZFZFZ", "DDFFE"]
    if tier != "quick":
        out += ["".join(p) for p in itertools.product("FED", repeat=5)]
    return out


def members_of(spec: str, meta):
    """spec: string over KINDS; meta: dict index -> set of dropped fields."""
    ms = []
    for i, k in enumerate(spec):
        name = {"F": f"f{i}.bin", "Z": f"z{i}.nul", "E": f"e{i}.empty", "D": f"d{i}", "L": f"l{i}.lnk"}[k]
        if i > 0 and spec[0] == "D" and k != "D":
            name = "d0/" + name
        kind = {"F": "file", "Z": "file", "E": "emptyfile", "D": "dir", "L": "symlink"}[k]
        data = {"F": bytes((i * 7 + j) & 0xFF for j in range(23 + 11 * i)), "Z": b"", "E": b"", "D": None, "L": b"f0.bin"}[k]
        m = {"name": name, "kind": kind, "data": data, "mtime": T0 + 10_000_000 * i, "ctime": T0 - 5 - i, "atime": T0 + 77 + i,
             "attr": ref7z.unix_attr("dir" if k == "D" else ("symlink" if k == "L" else "file"), 0o755 if k == "D" else 0o640)}
        for fld in meta.get(i, ()):
            if fld == "winattr":
                # attribute word as Windows 7-Zip writes it: no UNIX extension, DIRECTORY / ARCHIVE / READONLY bits only
                if k != "L":
                    m["attr"] = {"D": 0x10, "F": 0x20, "Z": 0x21, "E": 0x01}[k]
            else:
                m[fld] = None
        ms.append(m)
    return ms


CHAINS = [["LZMA2"], ["COPY"], ["LZMA"], ["BZIP2"], ["DEFLATE"], ["DEFLATE64"], ["ZSTD"], ["PPMD"], ["BROTLI"], ["X86", "LZMA"], ["X86", "LZMA2"],
          ["DELTA", "LZMA2"], ["ARM", "COPY"], ["SPARC", "BZIP2"], ["LZMA2", "AES"], ["COPY", "AES"], ["AES"], ["X86", "DEFLATE", "AES"],
          ["ZSTD/frames=3"]]  # a Zstandard stream of several frames (multi-threaded encoders)


def _coder(c):
    name, _, par = c.partition("/")
    return (name, {k: int(v) for k, v in (x.split("=") for x in par.split(",") if x)})
HEADERS = ["raw", "lzma", "lzma2", "copy", "aes", "lzma2+aes"]
METAS = [None, ("mtime",), ("attr",), ("ctime", "atime"), ("mtime", "attr", "ctime", "atime"), ("winattr",)]


def build_case(ch: explore.Chooser, spec: str):
    n = len(spec)
    data_idx = [i for i, k in enumerate(spec) if k in "FZL"]
    L = {}
    meta = {}
    comps = compositions(len(data_idx))
    comp = ch.pick(comps[::-1] if comps else [[]], "partition")  # default: one solid folder (last composition listed first)
    folders, pos = [], 0
    for size in comp:
        folders.append(data_idx[pos : pos + size])
        pos += size
    # a folder that holds no file at all (what remains when a member is deleted without repacking): legal, NumUnpackStream = 0
    where = ch.pick([None, "first", "middle", "last"], "empty-folder")
    if where is not None and folders:
        k = {"first": 0, "middle": max(1, len(folders) // 2) if len(folders) > 1 else 1, "last": len(folders)}[where]
        folders.insert(min(k, len(folders)), [])
    chain = ch.pick(CHAINS, "chain")
    per_folder_alt = ch.choose(2, "second-folder-other-chain") if len(folders) > 1 else 0
    chains_ = [[_coder(c) for c in chain] for _ in folders]
    if per_folder_alt:
        chains_[1] = [("COPY", {})] if chain != ["COPY"] else [("LZMA2", {})]
    L["folders"] = folders
    L["chains"] = chains_
    L["numunpack_omit"] = [True, False][ch.choose(2, "numunpack-always")]
    L["substreams_omit"] = bool(ch.choose(2, "substreams-section-omitted"))  # takes effect with one stream per folder and no substream CRCs
    L["startpos"] = bool(ch.choose(2, "startpos-property"))
    L["crc"] = ch.pick(["substream", "folder", "none", "both", "partial"], "crc")
    if L["substreams_omit"] and L["crc"] not in ("folder", "none"):
        L["crc"] = "folder"  # (without a SubStreamsInfo section there is no place for per-substream CRCs)
    L["pack_crc"] = ch.pick([False, True, "partial"], "pack-crc")
    L["packpos"] = ch.pick([0, 1, 7, 4096], "packpos")
    L["dummy"] = ch.pick([None, 0, 1, 2, 3, 4, 5, 6, 7], "dummy")
    L["emptyfile"] = ch.pick(["auto", "always"], "emptyfile-vector")
    L["alldef_shortcut"] = [True, False][ch.choose(2, "no-alldefined-shortcut")]
    L["header"] = ch.pick(HEADERS, "header")
    L["header_crc"] = [True, False][ch.choose(2, "no-header-crc")]
    # coder order is NOT varied: listing the coders outermost-first with matching bind pairs is formally legal but no
    # writer emits it and the property's layout list does not name it (py7zr assumes decode order; see DESIGN.md)
    L["coder_order"] = "decode"
    aes = ch.pick([{"cycles": 4, "salt": b"", "iv": bytes(range(1, 9))}, {"cycles": 4, "salt": b"", "iv": bytes(range(1, 17))},
                   {"cycles": 5, "salt": b"NaCl", "iv": bytes(range(3, 11))}, {"cycles": 0, "salt": b"", "iv": b"\x01"}], "aes-props")
    L["aes"] = aes
    for i in range(n):
        m = ch.pick(METAS, f"meta[{i}]")
        if m:
            meta[i] = m
    L["trailing"] = ch.pick([0, 1, 512], "trailing-bytes")
    password = PW if (any("AES" in [c for c, _ in cc] for cc in chains_) or "aes" in L["header"]) else None
    return members_of(spec, meta), L, password


def judge(members, blob, password, wd):
    """py7zr's view of blob vs the logical archive.  -> [(symptom, msg)]"""
    import py7zr

    out = []
    try:
        z = py7zr.SevenZipFile(io.BytesIO(blob), password=password)
    except Exception as ex:
        return [("open-exception", f"{type(ex).__name__}: {ex}")]
    try:
        names = z.getnames()
        if names != [m["name"] for m in members]:
            return [("names", f"getnames {names} want {[m['name'] for m in members]}")]
        for af, m in zip(z.files, members):
            want_dir = m["kind"] == "dir"
            if bool(af.is_directory) != want_dir:
                out.append(("kind", f"{m['name']!r}: is_directory={af.is_directory} but the format says {'directory' if want_dir else m['kind']}"))
            if m["kind"] == "symlink" and m["attr"] is not None and not af.is_symlink:
                out.append(("kind", f"{m['name']!r}: not recognised as symbolic link"))
            size = len(m["data"] or b"")
            if (af.uncompressed or 0) != size:
                out.append(("size", f"{m['name']!r}: uncompressed={af.uncompressed} want {size}"))
            lw = af.lastwritetime
            if (None if lw is None else int(lw)) != m["mtime"]:
                out.append(("mtime", f"{m['name']!r}: lastwritetime={lw} want {m['mtime']}"))
            for key, fld in (("creationtime", "ctime"), ("lastaccesstime", "atime")):
                v = af._file_info.get(key)
                if (None if v is None else int(v)) != m[fld]:
                    out.append((fld, f"{m['name']!r}: {key}={v} want {m[fld]}"))
            if af._file_info.get("attributes") != m["attr"]:
                out.append(("attributes", f"{m['name']!r}: attributes={af._file_info.get('attributes')} want {m['attr']}"))
        # the listing interface shows the same modification time (or none)
        import datetime

        for fi, m in zip(z.list(), members):
            want = None if m["mtime"] is None else datetime.datetime(1601, 1, 1, tzinfo=datetime.timezone.utc) + datetime.timedelta(microseconds=m["mtime"] // 10)
            got = fi.creationtime
            if (got is None) != (want is None) or (got is not None and abs((got - want).total_seconds()) > 1e-5):
                out.append(("list-time", f"{m['name']!r}: list() shows {got}, the archive says {want}"))
        f = Collect()
        try:
            z.extractall(factory=f)
            got = f.as_list()
            want = [(m["name"], m["data"] or b"") for m in members if m["kind"] != "dir"]
            if sorted(got) != sorted(want):
                gm, wm = dict(got), dict(want)
                bad = [n for n in wm if gm.get(n) != wm[n]] + [n for n in gm if n not in wm]
                out.append(("bytes", f"extractall(factory): wrong or missing {bad[:4]}"))
        except Exception as ex:
            out.append(("extract-exception", f"factory: {type(ex).__name__}: {ex}"))
    finally:
        try:
            z.close()
        except Exception:
            pass
    # extraction to a directory: kinds on disk.  The archive is opened by file name here: multi-folder archives without
    # password and links then take the thread-per-folder path, which computes the folders' positions on its own (seeded
    # change C06f: PackPos honoured on the sequential path only)
    dest = os.path.join(wd, "x06")
    shutil.rmtree(dest, ignore_errors=True)
    apath = os.path.join(wd, "x06.7z")
    with open(apath, "wb") as fh:
        fh.write(blob)
    try:
        with py7zr.SevenZipFile(apath, password=password) as z:
            z.extractall(path=dest)
        snap = tree_snapshot(dest)
        for m in members:
            got = snap.get(os.path.normpath(m["name"]))
            if m["kind"] == "dir":
                if got is None or got[0] != "dir":
                    out.append(("disk-kind", f"{m['name']!r}: a directory entry became {got[0] if got else 'nothing'} on disk"))
            elif m["kind"] == "symlink" and m["attr"] is not None:
                if got is None or got[0] != "link" or got[1] != m["data"].decode():
                    out.append(("disk-kind", f"{m['name']!r}: symlink entry became {got[:1] if got else 'nothing'} on disk"))
            else:
                if got is None or got[0] != "file" or got[1] != (m["data"] or b""):
                    out.append(("disk-kind", f"{m['name']!r}: file entry became {got[0] if got else 'nothing'} on disk"))
    except Exception as ex:
        out.append(("extract-exception", f"path: {type(ex).__name__}: {ex}"))
    shutil.rmtree(dest, ignore_errors=True)
    os.remove(apath)
    return out


def shard(task):
    kind = task[0]
    sh = Shard()
    install_key_cache()
    wd = os.path.join(os.getcwd(), "c06")
    os.makedirs(wd, exist_ok=True)
    if kind == "layout":
        _, specs, prefix, bound = task
        for spec in specs:
            def body(ch, spec=spec):
                members, L, pw = build_case(ch, spec)
                try:
                    blob = ref7z.write(members, L, password=pw)
                    back = ref7z.read(blob, password=pw, strict=False)
                    ok = [(m["name"], "file" if m["kind"] == "symlink" else m["kind"], m["data"]) for m in members] == [(m["name"], m["kind"], m["data"]) for m in back["members"]]
                except Exception as ex:
                    return members, L, pw, None, f"ref: {type(ex).__name__}: {ex}"
                if not ok:
                    return members, L, pw, None, "ref write->read mismatch"
                return members, L, pw, blob, None

            def on_exec(ch, res, spec=spec):
                members, L, pw, blob, err = res
                if err:
                    sh.count("reference_selfcheck_failed_not_judged")
                    sh.note("ref_errors", err[:80])
                    return
                r = judge(members, blob, pw, wd)
                sh.case((spec, ch.choices), nontrivial=len(spec) > 0, sample={"members": spec, "deviations": ch.decoded()} if len(sh.samples) < 2 and ch.cost() else None)
                sh.count(f"deviations={ch.cost()}")
                for sym, msg in r:
                    devs = sorted({lbl.split("[")[0] for lbl, _ in ch.decoded()})
                    sh.violation({"symptom": sym, "deviations": devs, "kinds": "".join(sorted(set(spec)))}, f"members={spec} layout deviations={ch.decoded()}: {msg}",
                                 {"kind": "layout", "spec": spec, "choices": ch.choices})

            explore.explore(body, bound, on_exec, prefix=prefix)
    else:
        for path in task[1]:
            n = os.path.basename(path)
            blob = open(path, "rb").read()
            pw = PASSWORDS.get(n)
            try:
                ref = ref7z.read(blob, password=pw, strict=False)
            except ref7z.Unsupported:
                # py7zr must say "unsupported" too (never deliver bytes)
                import py7zr

                try:
                    with py7zr.SevenZipFile(io.BytesIO(blob), password=pw) as z:
                        f = Collect()
                        z.extractall(factory=f)
                    sh.violation({"symptom": "unsupported-not-reported", "fixture": n}, f"{n}: uses a coder py7zr has no decoder for, but extraction returned normally", {"kind": "fixture", "name": n})
                except Exception:
                    pass
                sh.case(("fixture", n), nontrivial=False)
                continue
            except Exception:
                sh.case(("fixture", n), nontrivial=False)
                sh.count("fixture_reference_cannot_read")
                continue
            members = [{"name": (m["name"] or "").replace("\\", "/") or None, "kind": m["kind"], "data": m["data"], "mtime": m["mtime"], "ctime": m["ctime"], "atime": m["atime"], "attr": m["attr"]} for m in ref["members"]]
            if any(m["name"] is None for m in members):
                sh.count("fixture_without_names_not_judged")
                continue
            for m in members:  # the reference reports kinds from the format; symlink-ness comes from attributes
                if m["kind"] == "file" and m["attr"] is not None and m["attr"] & 0x8000 and stat.S_ISLNK(m["attr"] >> 16):
                    m["kind"] = "symlink"
            r = judge_fixture(members, blob, pw)
            sh.case(("fixture", n), sample={"fixture": n, "members": len(members)} if len(sh.samples) < 2 else None)
            for sym, msg in r:
                sh.violation({"symptom": sym, "fixture": n}, f"{n}: {msg}", {"kind": "fixture", "name": n})
    return sh.result()


def judge_fixture(members, blob, pw):
    import py7zr

    out = []
    try:
        with py7zr.SevenZipFile(io.BytesIO(blob), password=pw) as z:
            names = z.getnames()
            if names != [m["name"] for m in members]:
                return [("names", f"getnames differs from the reference reader ({len(names)} vs {len(members)})")]
            for af, m in zip(z.files, members):
                if bool(af.is_directory) != (m["kind"] == "dir"):
                    out.append(("kind", f"{m['name']!r}: is_directory={af.is_directory}, format says {m['kind']}"))
                lw = af.lastwritetime
                if (None if lw is None else int(lw)) != m["mtime"]:
                    out.append(("mtime", f"{m['name']!r}"))
                if af._file_info.get("attributes") != m["attr"]:
                    out.append(("attributes", f"{m['name']!r}"))
            f = Collect()
            z.extractall(factory=f)
            got = sorted(f.as_list())
            want = sorted((m["name"], m["data"] or b"") for m in members if m["kind"] != "dir")
            seen = {}
            want2 = []
            for n, d in [(m["name"], m["data"] or b"") for m in members if m["kind"] != "dir"]:
                k = seen.get(n, 0)
                seen[n] = k + 1
                # extraction delivers under the sanitised output name: leading '/' removed (C03), k-th duplicate suffixed
                n = n.lstrip("/")
                want2.append((n if k == 0 else f"{n}_{k - 1}", d))
            if got != sorted(want2):
                out.append(("bytes", "extractall(factory) differs from the reference reader"))
    except Exception as ex:
        out.append(("exception", f"{type(ex).__name__}: {ex}"))
    return out[:6]


def replay(case):
    wd = "/dev/shm/c06r-%d" % os.getpid()
    os.makedirs(wd, exist_ok=True)
    install_key_cache()
    try:
        if case["kind"] == "layout":
            ch = explore.Chooser(case["choices"])
            members, L, pw = build_case(ch, case["spec"])
            return judge(members, ref7z.write(members, L, password=pw), pw, wd)
        path = next(p for p in fixtures() if os.path.basename(p) == case["name"])
        blob = open(path, "rb").read()
        pw = PASSWORDS.get(case["name"])
        ref = ref7z.read(blob, password=pw, strict=False)
        members = [{"name": (m["name"] or "").replace("\\", "/"), "kind": m["kind"], "data": m["data"], "mtime": m["mtime"], "ctime": m["ctime"], "atime": m["atime"], "attr": m["attr"]} for m in ref["members"]]
        return judge_fixture(members, blob, pw)
    finally:
        shutil.rmtree(wd, ignore_errors=True)


def main(tier="quick", seed=0, only=None):
    chk = Check("C06", "exploration", MODULE, tier, seed)
    specs = logical_lists(tier)
    tasks = []
    # every logical list under every single layout deviation; richer lists under every pair of deviations
    b1 = 1
    tasks += [("layout", c, [], b1) for c in chunks(specs, 6)]
    rich = ["FDF", "DFEFD", "FFL", "EZF", "FDFDF"] if tier == "quick" else [s for s in specs if len(s) >= 3 and "F" in s and len(set(s)) >= 2][:60]
    for spec in rich:
        probe = explore.Chooser([])
        build_case(probe, spec)
        kids = explore.children(probe, 0, 2)
        tasks += [("layout", [spec], k, 2) for k in kids]
    tasks += [("fixtures", c) for c in chunks(fixtures(), 8)]
    import random

    random.Random(seed).shuffle(tasks)
    with Pool() as pool:
        res = pool.map(f"{MODULE}:shard", tasks, soft=3000)
    for t, r in zip(tasks, res):
        chk.merge_pool([r], plane=t[0])
    return chk.finish(
        rule=(
            f"logical archives: every ordered list of <= {3 if tier == 'quick' else 4} entries over {{file, zero-length substream, empty file, directory, "
            "symlink}} plus longer interleavings; layouts: default (one solid LZMA2 folder, per-file CRCs, raw header) with EVERY single deviation "
            "for every list, and every PAIR of deviations for the richer lists, over: every composition into folders, 18 coder chains, second "
            "folder with another chain, a file-less folder (NumUnpackStream 0) first / in the middle / last, NumUnpackStream always written, the SubStreamsInfo section left out altogether, a kStartPos property, CRC at substream/folder/none/both/every-other-substream, packed CRCs (all / every other stream), pack gap 1/7/4096, "
            "kDummy 0..7, EmptyFile always, no all-defined shortcut, header raw/LZMA/LZMA2/COPY/AES/LZMA2+AES with/without CRC, reverse coder "
            "order, AES IV 8/16/1 bytes and salt, undefined mtime/attributes/ctime+atime/all per entry, Windows-style attribute words (no UNIX extension: DIRECTORY / ARCHIVE / READONLY bits) per entry, trailing bytes; plus every third-party "
            "fixture. Oracle: names, is_directory/is_symlink, sizes, mtime/ctime/atime, attributes, extractall(factory) bytes and on-disk "
            "kinds equal the logical archive handed to ref7z (fixtures: equal ref7z.read). ref7z re-reads each archive first (self-check)."
        ),
        assumptions=["ref7z writes well-formed archives (self-checked per case by ref7z.read; layouts validated in setup_cmd)"],
        exhaustive=False,
    )
