"""C07 Writer conformance: every archive py7zr writes in the C01 planes (plus directory/empty/symlink
entries and 1..3 append sessions) is parsed by the strict independent reader ref7z, which checks the
structural invariants the property names and recovers the members through its own codecs and KDF."""
from __future__ import annotations

import io
import os
import shutil
import stat

from mc.checks import c01
from mc.core import explore
from mc.core.evidence import Check, Shard
from mc.core.pool import Pool, chunks
from mc.gen import archives, chains
from mc.lib7z import install_key_cache, seams
from mc.ref import ref7z

MODULE = "mc.checks.c07"


def judge(blob: bytes, model, password):
    """model: [(name, kind, data)] with kind in file/dir/symlink/emptyfile-or-file.  -> [(symptom, msg)]"""
    out = []
    try:
        r = ref7z.read(blob, password=password, strict=True)
    except ref7z.FormatError as ex:
        return [("malformed", str(ex))]
    except ref7z.Unsupported as ex:
        return [("ref-unsupported", str(ex))]
    except Exception as ex:
        return [("ref-exception", f"{type(ex).__name__}: {ex}")]
    got = r["members"]
    if [m["name"] for m in got] != [m[0] for m in model]:
        return [("members-names", f"reference reads {[m['name'] for m in got]!r} want {[m[0] for m in model]!r}")]
    for g, (name, kind, data) in zip(got, model):
        if kind == "dir":
            if g["kind"] != "dir":
                out.append(("kind", f"{name!r}: written as directory, format says {g['kind']}"))
        elif kind == "symlink":
            a = g["attr"]
            if g["kind"] != "file" or g["data"] != data:
                out.append(("symlink-target", f"{name!r}: stored target {g['data']!r} want {data!r}"))
            elif a is None or not (a & 0x8000) or not stat.S_ISLNK(a >> 16):
                out.append(("symlink-attr", f"{name!r}: attributes {a!r} do not mark a symbolic link"))
        else:
            if g["kind"] == "dir":
                out.append(("kind", f"{name!r}: written as file, format says directory"))
            elif (g["data"] or b"") != data:
                out.append(("bytes", f"{name!r}: reference decodes {len(g['data'] or b'')} bytes, {len(data)} written"))
    for k, f in enumerate(r["folders"]):
        if f["nsub"] == 0 and f["unpacksizes"][-1] != 0:
            out.append(("folder-without-files", f"folder {k}"))
    return out


def run_case(case: dict, workdir=None):
    workdir = workdir or archives.fresh_dir("c07")
    try:
        prod = archives.produce(case, os.path.join(workdir, "w"))
    except Exception as ex:
        return [("write-exception", f"{type(ex).__name__}: {ex}")]
    model = [(n, "file", d) for n, d in prod["members"]]
    return judge(prod["blob"], model, prod["password"])


# --- sessions with directory / empty / symlink entries and appends ---------------------------------
TREE = [("t", "dir", None), ("t/sub", "dir", None), ("t/sub/f.bin", "file", b"\x00\x01binary\xff" * 9), ("t/empty", "file", b""),
        ("t/emptydir", "dir", None), ("t/link", "symlink", b"sub/f.bin"), ("t/z.txt", "file", b"zzz")]


def make_tree(root):
    shutil.rmtree(root, ignore_errors=True)
    for name, kind, data in TREE:
        p = os.path.join(root, name)
        if kind == "dir":
            os.makedirs(p, exist_ok=True)
        elif kind == "symlink":
            os.symlink(data.decode(), p)
        else:
            with open(p, "wb") as f:
                f.write(data)
    # fixed timestamps (deepest first, so that directories keep theirs): the archived metadata is the same in every run
    ns = 1_600_000_000_123_456_700
    for name, kind, data in sorted(TREE, key=lambda t: -t[0].count("/")):
        os.utime(os.path.join(root, name), ns=(ns, ns), follow_symlinks=False)


SESSION_MEMBERS = {
    "none": [],
    "str1": [("writestr", "s{n}/a.txt", b"alpha-{n}" * 4)],
    "str2": [("writestr", "s{n}/a.txt", b"alpha-{n}" * 4), ("writef", "s{n}/b.bin", bytes(range(200)))],
    "zero": [("writestr", "s{n}/zero", b"")],
    "tree": [("writeall", "t", None)],
    "file": [("write", "t/z.txt", None), ("write", "t/empty", None)],
    "dir": [("write", "t/emptydir", None)],
    "link": [("write", "t/link", None)],
    # (C14 only) contents that look like the start of a header when they land where a header used to be: kHeader kEnd
    "hdrlike": [("writestr", "n{n}.bin", b"\x01\x00" + bytes(2000))],
    "tiny": [("writestr", "t{n}", b"x")],
}


def run_sessions(spec: dict, workdir=None):
    """spec: {"sessions": [(members-key, chain, header)], "target": "path"|"bytesio"}"""
    import py7zr

    install_key_cache()
    workdir = workdir or archives.fresh_dir("c07s")
    root = os.path.join(workdir, "src")
    make_tree(root)
    path = os.path.join(workdir, "a.7z")
    if os.path.exists(path):
        os.remove(path)
    bio = io.BytesIO()
    model = []
    pw = archives.PASSWORD if any(chains.needs_password(c) or h == "encrypted" for _, c, h in spec["sessions"]) else None
    old = os.getcwd()
    os.chdir(root)
    try:
        for n, (mk, chain, header) in enumerate(spec["sessions"]):
            mode = "w" if n == 0 else "a"
            tgt = path if spec["target"] == "path" else bio
            bio.seek(0)  # append mode inspects the stream from its current position
            filters = chains.py_filters(chain)
            if pw and not chains.needs_password(chain):
                filters = chains.py_filters(chain + "+AES") if chain + "+AES" in chains.ALL else filters
            with py7zr.SevenZipFile(tgt, mode, filters=filters, password=pw) as z:
                if header == "raw":
                    z.set_encoded_header_mode(False)
                elif header == "encrypted":
                    z.set_encrypted_header(True)
                for api, name, data in SESSION_MEMBERS[mk]:
                    name = name.replace("{n}", str(n))
                    if api == "writestr":
                        d = data.replace(b"{n}", str(n).encode())
                        z.writestr(d, name)
                        model.append((name, "file", d))
                    elif api == "writef":
                        z.writef(io.BytesIO(data), name)
                        model.append((name, "file", data))
                    elif api == "write":
                        z.write(name)
                        model.append(next(t for t in TREE if t[0] == name))
                    elif api == "writeall":
                        z.writeall(name)
                        model.extend(sorted_tree(name))
    except Exception as ex:
        # a session that raises wrote no archive to judge; C08 (append) and C15 (failed writes) own that behaviour
        return [("not-judged", f"session {n} {mk}/{chain}/{header}: {type(ex).__name__}: {ex}")]
    finally:
        os.chdir(old)
    blob = open(path, "rb").read() if spec["target"] == "path" else bio.getvalue()
    return judge(blob, model, pw)


def sorted_tree(top):
    """Order in which writeall visits: the directory itself, then sorted(listdir) recursively."""
    out = []

    def walk(name):
        e = next(t for t in TREE if t[0] == name)
        out.append(e)
        if e[1] == "dir":
            kids = sorted(t[0] for t in TREE if os.path.dirname(t[0]) == name)
            for k in sorted(kids, key=lambda s: os.path.basename(s)):
                walk(k)

    walk(top)
    return out


def session_specs(tier):
    keys = list(SESSION_MEMBERS)
    hdrs = ["raw", "encoded"]
    cs = ["COPY", "LZMA2", "BZIP2", "ZSTD"]
    specs = []
    # every single session
    for mk in keys:
        for c in cs + ["LZMA2+AES"]:
            for h in hdrs + (["encrypted"] if "AES" in c else []):
                for tgt in ("path", "bytesio"):
                    specs.append({"sessions": [(mk, c, h)], "target": tgt})
    # every ordered pair of member lists (chain/header deviations one at a time), and triples in thorough
    for a in keys:
        for b in keys:
            specs.append({"sessions": [(a, "COPY", "raw"), (b, "COPY", "raw")], "target": "path"})
            specs.append({"sessions": [(a, "LZMA2", "encoded"), (b, "BZIP2", "encoded")], "target": "path"})
            specs.append({"sessions": [(a, "COPY", "raw"), (b, "ZSTD", "encoded")], "target": "bytesio"})
    specs.append({"sessions": [("str1", "LZMA2+AES", "encrypted"), ("str2", "LZMA2+AES", "encrypted")], "target": "path"})
    specs.append({"sessions": [("tree", "LZMA2+AES", "encoded"), ("str1", "COPY+AES", "encoded")], "target": "path"})
    trip = keys if tier == "thorough" else ["none", "str1", "tree", "zero"]
    for a in trip:
        for b in trip:
            for c in trip:
                specs.append({"sessions": [(a, "COPY", "raw"), (b, "LZMA2", "raw"), (c, "COPY", "encoded")], "target": "path"})
    return specs


def sig_case(case, sym, msg):
    return {"symptom": sym, "chain": case["chain"], "header": case["header"], "target": case["target"][:2], "where": msg.split(":")[0][:40]}


def sig_sess(spec, sym, msg):
    return {"symptom": sym, "sessions": [s[0] for s in spec["sessions"]], "where": msg.split(":")[0][:40]}


def shard(task):
    kind, arg = task
    sh = Shard()
    wd = archives.fresh_dir("c07")
    if kind in ("P1", "P2", "P4"):
        for case in arg:
            r = run_case(case, wd)
            sh.case(case, nontrivial=True, sample=case if len(sh.samples) < 1 else None)
            sh.note("chains", case["chain"])
            if r and c01._library_defect(case):
                sh.count("codec_library_defect_not_judged")
                continue
            for sym, msg in r:
                sh.violation(sig_case(case, sym, msg), msg, {"kind": "case", "case": case})
    elif kind == "P3":
        prefix, bound, seed = arg

        def body(ch):
            case = c01.p3_case(ch, seed)
            return case, run_case(case, wd)

        def on_exec(ch, res):
            case, r = res
            sh.case(case, sample={"choices": ch.decoded()} if len(sh.samples) < 1 else None)
            sh.note("chains", case["chain"])
            for sym, msg in r:
                sh.violation(sig_case(case, sym, msg), msg, {"kind": "case", "case": case})

        explore.explore(body, bound, on_exec, prefix=prefix)
    elif kind == "S":
        for spec in arg:
            r = run_sessions(spec, wd)
            sh.case(spec, sample=spec if len(sh.samples) < 1 else None)
            sh.count(f"sessions={len(spec['sessions'])}")
            for sym, msg in r:
                if sym == "not-judged":
                    sh.count("sessions_raised_not_judged")
                    continue
                sh.violation(sig_sess(spec, sym, msg), msg, {"kind": "sessions", "spec": spec})
    shutil.rmtree(wd, ignore_errors=True)
    return sh.result()


def replay(case):
    if case["kind"] == "case":
        return run_case(case["case"])
    return run_sessions(case["spec"])


def main(tier="quick", seed=0, only=None):
    chk = Check("C07", "exploration", MODULE, tier, seed)
    tasks = []
    for name, cases, per in (("P1", list(c01.p1_cases(tier, seed)), 80), ("P2", list(c01.p2_cases("quick", seed)), 8), ("P4", list(c01.p4_cases(tier, seed)), 30)):
        if only and name not in only:
            continue
        tasks += [(name, c) for c in chunks(cases, per)]
    bound = 2 if tier == "quick" else 3
    if not only or "P3" in only:
        probe = explore.Chooser([])
        c01.p3_case(probe, seed)
        tasks.append(("P3", ([], 0, seed)))
        tasks += [("P3", (child, bound, seed)) for child in explore.children(probe, 0, bound)]
    if not only or "S" in only:
        tasks += [("S", c) for c in chunks(session_specs(tier), 12)]
    with Pool() as pool:
        res = pool.map(f"{MODULE}:shard", tasks, soft=1800)
    for t, r in zip(tasks, res):
        chk.merge_pool([r], plane=t[0])
    return chk.finish(
        rule=(
            "every archive of the C01 planes P1 (chains x sizes x textures, scaled block), P2 (real block boundaries), P3 (<= "
            f"{bound} configuration deviations: header raw/encoded/encrypted, targets incl. multi-volume, member counts, name classes) and "
            "P4 (parameter values), plus sessions S: every member-list kind (none, writestr, writestr+writef, zero-length, writeall of a tree "
            "with dirs/empty file/empty dir/symlink, write of files, of a directory, of a symlink) x chains x header modes x path/stream, "
            "every ordered pair and (quick: a 4-element subset, thorough: all) triples of append sessions. Each is parsed by ref7z in "
            "strict mode: start-header offset/size/CRCs, header is the last thing in the file, pack sizes tile the data area, every coder's "
            "declared unpack size and every CRC equals what stage-wise decoding yields, counts agree across sections, every FilesInfo "
            "property size equals the bytes consumed, members recovered (AES through the independent KDF). Distinct by case digest."
        ),
        assumptions=["ref7z is the independent reader (validated against the third-party fixtures in setup_cmd)",
                     "minimal NUMBER encodings and the presence of a CRC on the encoded header are not demanded"],
        exhaustive=False,
    )
