"""C08 Append preserves history: BFS over session histories w(M0,F0) a(M1,F1) ... on the real code.
After every session the archive is read by py7zr and by the independent reader; the member map must be
the previous map (name, kind, bytes, mtime, attributes unchanged) followed by the session's members.
Initial states: py7zr-written first sessions, reference-written layouts, third-party fixtures."""
from __future__ import annotations

import io
import os
import shutil
import signal

from mc.checks import c07
from mc.core.evidence import Check, digest
from mc.core.pool import Pool, SoftTimeout, chunks
from mc.gen import archives, chains
from mc.lib7z import fixed_random, Collect, install_key_cache
from mc.ref import ref7z
from mc.selftest import PASSWORDS, fixtures

MODULE = "mc.checks.c08"
MEMBER_KINDS = ["str1", "none", "str2", "zero", "tree", "file", "dir", "link"]


def read_both(blob, password):
    """-> (ref_map, py_map, errors).  ref_map: [(name, kind, data, mtime, attr)], py_map: [(name, data|None, mtime, attr, is_dir)]"""
    import py7zr

    errs = []
    rm = pm = None
    try:
        r = ref7z.read(blob, password=password, strict=False)
        # py7zr documents that it reads '\\' in stored names as '/', and it writes what it read
        rm = [(m["name"].replace("\\", "/") if m["name"] is not None else None, m["kind"], m["data"], m["mtime"], m["attr"]) for m in r["members"]]
    except Exception as ex:
        errs.append(("ref-cannot-read", f"{type(ex).__name__}: {ex}"))
    try:
        with py7zr.SevenZipFile(io.BytesIO(blob), password=password) as z:
            f = Collect()
            z.extractall(factory=f)
            data = dict(f.as_list())
            seen = {}
            pm = []
            for af in z.files:
                mt = af.lastwritetime
                # py7zr delivers the k-th duplicate of a name as "<name>_<k-1>"
                k = seen.get(af.filename, 0)
                seen[af.filename] = k + 1
                d = None if af.is_directory else data.get(af.filename if k == 0 else f"{af.filename}_{k - 1}")
                pm.append((af.filename, d, None if mt is None else int(mt), af._file_info.get("attributes"), bool(af.is_directory)))
    except Exception as ex:
        errs.append(("py7zr-cannot-read", f"{type(ex).__name__}: {ex}"))
    return rm, pm, errs


def session(blob, n, mk, chain, header, password, root, pos="start"):
    """Run one session on top of `blob` (None = create).  Returns (new_blob, appended_model) or raises.
    pos: where the stream handed to the append session stands (a caller reusing the stream of the previous session
    finds it wherever close() left it: the archive is addressed from offset 0 whatever the position)."""
    import py7zr

    bio = io.BytesIO(blob or b"")
    if blob and pos != "start":
        bio.seek({"end": len(blob), "mid": 6, "afterhdr": 32}[pos])
    filters = chains.py_filters(chain)
    appended = []
    old = os.getcwd()
    os.chdir(root)
    try:
        # (deterministic IVs and 'now' stamps: a history is the same bytes in every run and in every replay)
        with fixed_random(f"c08:{n}:{mk}:{chain}:{header}"), py7zr.SevenZipFile(bio, "w" if blob is None else "a", filters=filters, password=password) as z:
            if header == "raw":
                z.set_encoded_header_mode(False)
            elif header == "encrypted":
                z.set_encrypted_header(True)
            for api, name, data in c07.SESSION_MEMBERS[mk]:
                name = name.replace("{n}", str(n))
                if api == "writestr":
                    d = data.replace(b"{n}", str(n).encode())
                    z.writestr(d, name)
                    appended.append((name, "file", d))
                elif api == "writef":
                    z.writef(io.BytesIO(data), name)
                    appended.append((name, "file", data))
                elif api == "write":
                    z.write(name)
                    appended.append(next(t for t in c07.TREE if t[0] == name))
                else:
                    z.writeall(name)
                    appended.extend(c07.sorted_tree(name))
    finally:
        os.chdir(old)
    return bio.getvalue(), appended


def initial_blob(init, root):
    """init: ("py", mk, chain, header) | ("ref", idx) | ("fixture", basename) -> (blob, password, label)"""
    if init[0] == "py":
        _, mk, chain, header = init
        pw = archives.PASSWORD if (chains.needs_password(chain) or header == "encrypted") else None
        blob, _ = session(None, 0, mk, chain, header, pw, root)
        return blob, pw
    if init[0] == "ref":
        from mc.checks import c10

        rc = c10.ref_layout_cases()[init[1]]
        return ref7z.write(rc["members"], rc["layout"], password=rc["password"]), rc["password"]
    path = next(p for p in fixtures() if os.path.basename(p) == init[1])
    return open(path, "rb").read(), PASSWORDS.get(init[1])


def run_history(init, sessions, wd):
    """Replays the whole history; judges every session.  -> (violations, info)"""
    install_key_cache()
    root = os.path.join(wd, "src")
    if not os.path.isdir(root):
        c07.make_tree(root)
    viol = []
    try:
        blob, pw = initial_blob(init, root)
    except Exception as ex:
        if init[0] == "py":
            return [({"symptom": "first-session-raises", "members": init[1], "exc": type(ex).__name__}, f"w({init[1]},{init[2]},{init[3]}): {type(ex).__name__}: {ex}")], {"judged": 0}
        return [], {"judged": 0, "skipped": f"initial state unusable: {type(ex).__name__}"}
    rm, pm, errs = read_both(blob, pw)
    if errs:
        if init[0] == "py":
            for sym, msg in errs:
                viol.append(({"symptom": sym, "after": "create", "members": init[1]}, f"after w({init[1]},{init[2]},{init[3]}): {msg}"))
            return viol, {"judged": 0}
        return [], {"judged": 0, "skipped": "initial state not readable by both readers: " + errs[0][0]}
    judged = 0
    for n, (mk, chain, header, *rest) in enumerate(sessions, start=1):
        pos = rest[0] if rest else "start"
        label = f"{init} then " + " ".join("a(" + ",".join(x) + ")" for x in sessions[:n])
        if pw is None and chains.needs_password(chain):
            return viol, {"judged": judged, "skipped": "password not constant"}
        try:
            nblob, appended = session(blob, n, mk, chain if not pw or chains.needs_password(chain) else chain, header, pw, root, pos)
        except SoftTimeout:
            raise
        except Exception as ex:
            viol.append(({"symptom": "append-raises", "members": mk, "base": _base_class(init, rm), "exc": type(ex).__name__}, f"{label}: {type(ex).__name__}: {ex}"))
            return viol, {"judged": judged}
        nrm, npm, errs = read_both(nblob, pw)
        judged += 1
        for sym, msg in errs:
            viol.append(({"symptom": sym, "members": mk, "base": _base_class(init, rm)}, f"{label}: {msg}"))
        if nrm is not None:
            k = len(rm)
            if [(None if o[0] is None else n[0],) + tuple(n[1:]) for o, n in zip(rm, nrm[:k])] != rm or len(nrm) < k:
                viol.append(({"symptom": "history-altered(ref)", "members": mk, "base": _base_class(init, rm), "what": _first_diff(rm, nrm[:k])}, f"{label}: reference reader: {_first_diff(rm, nrm[:k])}"))
            tail = [(a, b, c) for a, b, c, _, _ in nrm[k:]]
            want = [(a, "file" if b == "symlink" else b, c) for a, b, c in appended]
            got = [(a, "file" if (b == "emptyfile") else b, c or (b"" if b != "dir" else None)) for a, b, c in tail]
            want = [(a, b, c if b != "dir" else None) for a, b, c in want]
            if got != want:
                viol.append(({"symptom": "appended-wrong(ref)", "members": mk, "base": _base_class(init, rm)}, f"{label}: reference reader sees appended {[(a, b) for a, b, _ in got]} want {[(a, b) for a, b, _ in want]}"))
        if npm is not None:
            k = len(pm)
            if npm[:k] != pm:
                viol.append(({"symptom": "history-altered(py7zr)", "members": mk, "base": _base_class(init, rm), "what": _first_diff(pm, npm[:k])}, f"{label}: py7zr reader: {_first_diff(pm, npm[:k])}"))
            gotn = [(x[0], x[1]) for x in npm[k:]]
            wantn = [(a, None if b == "dir" else c) for a, b, c in appended]
            if gotn != wantn:
                viol.append(({"symptom": "appended-wrong(py7zr)", "members": mk, "base": _base_class(init, rm)}, f"{label}: py7zr sees appended {[a for a, _ in gotn]} want {[a for a, _ in wantn]} (or bytes differ)"))
        if errs or nrm is None or npm is None:
            return viol, {"judged": judged}
        blob, rm, pm = nblob, nrm, npm
    return viol, {"judged": judged, "key": digest(repr(rm))}


def _base_class(init, rm):
    if init[0] == "fixture":
        return "fixture:" + init[1]
    if init[0] == "ref":
        return f"ref:{init[1]}"
    kinds = sorted({k for _, k, _, _, _ in rm}) if rm else []
    return "py:" + init[1]


def _first_diff(a, b):
    if len(a) != len(b):
        return f"{len(a)} members before, {len(b)} of them left"
    fields = ["name", "kind/data", "data/mtime", "mtime/attr", "attr/isdir"]
    for i, (x, y) in enumerate(zip(a, b)):
        if x != y:
            for j, (p, q) in enumerate(zip(x, y)):
                if p != q:
                    return f"member {i} ({x[0]!r}) field#{j} changed: {str(p)[:40]!r} -> {str(q)[:40]!r}"
    return "?"


def worker(task):
    items = task
    wd = os.path.join(os.getcwd(), "c08")
    os.makedirs(wd, exist_ok=True)
    out = []
    for init, sessions in items:
        signal.setitimer(signal.ITIMER_REAL, 60)
        try:
            v, info = run_history(init, sessions, wd)
        except SoftTimeout:
            v, info = [({"symptom": "hang", "base": str(init)[:40]}, f"{init} {sessions}: did not finish in 60 s")], {"judged": 0}
        finally:
            signal.setitimer(signal.ITIMER_REAL, 0)
        out.append({"init": init, "sessions": sessions, "violations": v, "info": info})
    return out


def replay(case):
    wd = "/dev/shm/c08r-%d" % os.getpid()
    os.makedirs(wd, exist_ok=True)
    try:
        v, _ = run_history(tuple(case["init"]), [tuple(s) for s in case["sessions"]], wd)
        return v
    finally:
        shutil.rmtree(wd, ignore_errors=True)


def main(tier="quick", seed=0, only=None):
    chk = Check("C08", "model_checking", MODULE, tier, seed)
    first_chains = ["COPY", "LZMA2", "BZIP2", "ZSTD", "LZMA2+AES"]
    app_chains = ["COPY", "LZMA2"] if tier == "quick" else ["COPY", "LZMA2", "BZIP2", "ZSTD"]
    hdrs = ["raw", "encoded"]
    inits = []
    for mk in MEMBER_KINDS:
        for c in first_chains:
            for h in hdrs + (["encrypted"] if "AES" in c else []):
                inits.append(("py", mk, c, h))
    from mc.checks import c10

    ref_inits = [("ref", i) for i in range(len(c10.ref_layout_cases()))]
    fix_inits = [("fixture", os.path.basename(p)) for p in fixtures()]
    alphabet = [(mk, c, h) for mk in MEMBER_KINDS for c in app_chains for h in hdrs]
    items = []
    depth_py = 2 if tier == "quick" else 3
    # level-synchronous enumeration of histories: every extension of every initial state up to the depth
    for init in inits:
        aes = chains.needs_password(init[2]) or init[3] == "encrypted"
        alpha = [(mk, (c + "+AES") if aes and (c + "+AES") in chains.ALL else c, h) for mk, c, h in alphabet]
        # depth 1 exhaustively; deeper levels over the reduced alphabet (COPY/raw + LZMA2/encoded) to keep the product finite and small
        items += [(init, [a]) for a in alpha]
        red = [a for a in alpha if (a[1].startswith("COPY") and a[2] == "raw") or (a[1].startswith("LZMA2") and a[2] == "encoded")]
        if init[2] in ("COPY", "LZMA2") or tier != "quick":
            for a in red:
                for b in red:
                    items.append((init, [a, b]))
                    if depth_py >= 3 and init[1] in ("str1", "tree", "none") and a[0] in ("str1", "zero", "dir", "tree") and init[3] == "raw":
                        items += [(init, [a, b, c]) for c in red if c[1].startswith("COPY")]
    # the append session is handed a stream that does not stand at offset 0 (the stream of the previous session, reused)
    for init in inits:
        if init[1] in ("str1", "tree") and init[2] in ("COPY", "LZMA2", "LZMA2+AES"):
            aes = chains.needs_password(init[2]) or init[3] == "encrypted"
            for pos in ("end", "mid", "afterhdr"):
                for a in (("str2", "COPY+AES" if aes else "COPY", "raw", pos), ("dir", "LZMA2+AES" if aes else "LZMA2", "encoded", pos)):
                    items.append((init, [a]))
                    items.append((init, [a, ("str1", a[1], a[2], "end")]))
    for init in ref_inits + fix_inits:
        items += [(init, [a]) for a in alphabet if a[1] == "COPY" and a[2] in ("raw", "encoded")]
        items += [(init, [("str1", "LZMA2", "encoded"), ("str2", "COPY", "raw")])]
    import random

    random.Random(seed).shuffle(items)
    states = set()
    transitions = 0
    skipped = {}
    with Pool() as pool:
        res = pool.map(f"{MODULE}:worker", chunks(items, 25), soft=3000)
    for status, r in res:
        if status != "ok":
            chk.harness_error(f"{status}: {str(r)[-600:]}")
            continue
        for x in r:
            chk.evals += 1
            transitions += x["info"].get("judged", 0)
            if "key" in x["info"]:
                states.add(x["info"]["key"])
                chk.nontrivial.add(x["info"]["key"])
            if "skipped" in x["info"]:
                skipped[x["info"]["skipped"][:60]] = skipped.get(x["info"]["skipped"][:60], 0) + 1
            if len(chk.samples) < 6 and x["info"].get("judged"):
                chk.samples.append({"initial": x["init"], "sessions": x["sessions"]})
            for sig, msg in x["violations"]:
                chk.violation(sig, msg, {"init": x["init"], "sessions": x["sessions"]})
    return chk.finish(
        rule=(
            f"session histories: every py7zr first session over 8 member-list kinds (none, writestr, writestr+writef, zero-length, writeall of "
            f"a tree with dirs/empty file/empty dir/symlink, write of files, of a directory, of a symlink) x {first_chains} x header modes, "
            f"extended by EVERY append session over member kinds x {app_chains} x raw/encoded (depth 1), by every pair over the reduced "
            f"alphabet (depth 2) and selected triples (thorough); plus every reference-written layout of C10 and every third-party fixture "
            "as initial state, extended by each member kind; append sessions handed a stream standing at its end, at offset 6 or at offset 32 "
            "instead of 0. After every session both readers must see the previous member map unchanged "
            "(name, kind, bytes, mtime, attributes) followed by exactly the appended members. State = logical member map digest."
        ),
        assumptions=["password constant along a history", "ctime/atime are not compared (property observes mtime and attributes)"],
        states=max(1, len(states)), transitions=max(1, transitions), traces_validated_against_impl=chk.evals, skipped_initial_states=skipped,
        samples=chk.samples or ["(none)"],
    )
