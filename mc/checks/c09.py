"""C09 Selective extraction equals the restriction of full extraction: all 2^n target subsets (plus
absent names) x list/set x trailing slash x recursive x directory/factory sink, on solid, multi-folder
(py7zr append sessions) and reference-written multi-folder archives with interleaved directories."""
from __future__ import annotations

import io
import itertools
import os
import shutil

from mc.core.evidence import Check, Shard
from mc.core.pool import Pool, chunks
from mc.gen import chains, content
from mc.lib7z import Collect, tree_snapshot
from mc.ref import ref7z

MODULE = "mc.checks.c09"
ABSENT = "nope/absent"


def build_archives(tier="thorough"):
    import py7zr

    A = {}
    ms = [
        {"name": "a.txt", "kind": "file", "data": content.make("repetitive", 37, 1)},
        {"name": "d", "kind": "dir", "data": None},
        {"name": "d/b.bin", "kind": "file", "data": content.make("random", 29, 2)},
        {"name": "d/e", "kind": "dir", "data": None},
        {"name": "d/e/c.dat", "kind": "file", "data": content.make("x86", 45, 3)},
        {"name": "empty", "kind": "emptyfile", "data": b""},
        {"name": "z.last", "kind": "file", "data": content.make("random", 18, 4)},
    ]
    for m in ms:
        m["attr"] = ref7z.unix_attr("dir" if m["kind"] == "dir" else "file", 0o755 if m["kind"] == "dir" else 0o644)
        m["mtime"] = 132223104000000000
    Z = [("LZMA2", {})]
    A["solid"] = {"blob": ref7z.write(ms, {"folders": [[0, 2, 4, 6]], "chains": [Z]}), "members": ms}
    A["multi"] = {"blob": ref7z.write(ms, {"folders": [[0], [2, 4], [6]], "chains": [[("COPY", {})], Z, [("BZIP2", {})]], "header": "lzma"}), "members": ms}
    # py7zr-written, three append sessions (one folder each), no directory entries
    bio = io.BytesIO()
    pm = []
    for k, batch in enumerate([[("s0/a", 33)], [("s1/x", 21), ("s1/y", 40)], [("s2/z", 17)]]):
        bio.seek(0)
        with py7zr.SevenZipFile(bio, "w" if k == 0 else "a", filters=chains.py_filters("COPY" if k != 1 else "LZMA2")) as z:
            z.set_encoded_header_mode(False)
            for name, size in batch:
                d = content.make("repetitive", size, k + 7)
                z.writestr(d, name)
                pm.append({"name": name, "kind": "file", "data": d})
    A["append3"] = {"blob": bio.getvalue(), "members": pm}
    # layouts that shift offsets and ids: data away from offset 0, a file-less folder between two others, dummy padding,
    # folder-level CRCs only, explicit stream counts
    C = [("COPY", {})]
    A["gap-emptyfolder"] = {"blob": ref7z.write(ms, {"folders": [[0, 2], [], [4, 6]], "chains": [C, C, Z], "packpos": 11, "dummy": 3, "crc": "folder",
                                                     "numunpack_omit": False}), "members": ms}
    # two solid folders behind filters that buffer (BCJ) or ignore max_length (PPMd): skipping inside the block matters
    ms2 = [dict(m) for m in ms]
    for i, m in enumerate(ms2):
        if m["kind"] == "file":
            m["data"] = content.make("x86" if i % 2 else "repetitive", 300 + 77 * i, 20 + i)
    A["solid2x"] = {"blob": ref7z.write(ms2, {"folders": [[0, 2], [4, 6]], "chains": [[("X86", {}), ("LZMA", {})], [("PPMD", {})]], "header": "lzma2"}), "members": ms2}
    # the order 7-Zip itself writes: all files first, every directory entry at the end (a member is then met before the
    # entry of the directory it lies in)
    last = [m for m in ms if m["kind"] != "dir"] + [m for m in ms if m["kind"] == "dir"]
    nd = [i for i, m in enumerate(last) if m["kind"] == "file"]
    A["dirs-last"] = {"blob": ref7z.write(last, {"folders": [nd[:2], nd[2:]], "chains": [Z, C]}), "members": last}
    # directories stored with a trailing slash of their own (writers that keep the caller's spelling)
    sl = [dict(m, name=m["name"] + "/") if m["kind"] == "dir" else m for m in ms]
    A["dir-slash"] = {"blob": ref7z.write(sl, {"folders": [[0, 2], [4, 6]], "chains": [C, Z]}), "members": sl}
    if tier == "quick":
        return A
    A["aes-multi"] = {"blob": ref7z.write(ms, {"folders": [[0], [2, 4], [6]], "chains": [[("LZMA2", {}), ("AES", {})]] * 3, "header": "lzma2+aes"}, password="pw"),
                      "members": ms, "password": "pw"}
    A["single-file-folders"] = {"blob": ref7z.write(ms, {"folders": [[0], [2], [4], [6]], "chains": [C, Z, [("BZIP2", {})], [("ZSTD", {})]], "crc": "both", "pack_crc": True}), "members": ms}
    # py7zr-written tree with an empty directory, a zero-length file and nested files, then an appended folder
    import tempfile

    td = tempfile.mkdtemp(prefix="c09t", dir="/dev/shm")
    try:
        os.makedirs(os.path.join(td, "t/sub/emptydir"))
        tm = []
        for rel, size in (("t/one.txt", 40), ("t/sub/two.bin", 25), ("t/sub/zero", 0)):
            d = content.make("repetitive", size, 31) if size else b""
            with open(os.path.join(td, rel), "wb") as f:
                f.write(d)
        bio = io.BytesIO()
        old = os.getcwd()
        os.chdir(td)
        try:
            with py7zr.SevenZipFile(bio, "w") as z:
                z.writeall("t")
            bio.seek(0)
            with py7zr.SevenZipFile(bio, "a", filters=chains.py_filters("COPY")) as z:
                z.writestr(b"appended-later" * 3, "t/late.txt")
        finally:
            os.chdir(old)
        r = ref7z.read(bio.getvalue(), strict=False)
        tm = [{"name": m["name"], "kind": "dir" if m["kind"] == "dir" else "file", "data": m["data"]} for m in r["members"]]
        A["py-tree-append"] = {"blob": bio.getvalue(), "members": tm}
    finally:
        shutil.rmtree(td, ignore_errors=True)
    return A


def expected(members, targets, recursive):
    names = {m["name"].rstrip("/"): m for m in members}
    T = {t.rstrip("/") for t in targets}
    sel = []
    for m in members:
        n = m["name"].rstrip("/")
        if n in T:
            sel.append(m)
        elif recursive and any(t in names and names[t]["kind"] == "dir" and n.startswith(t + "/") for t in T):
            sel.append(m)
    return sel


def run_case(arch, case, wd):
    import py7zr

    targets, as_set, slash, recursive, sink, opened = case["targets"], case["as_set"], case["slash"], case["recursive"], case["sink"], case["opened"]
    members = arch["members"]
    tlist = [t.rstrip("/") + "/" if slash else t for t in targets]
    targ = set(tlist) if as_set else list(tlist)
    want = expected(members, targets, recursive)
    out = []
    path = os.path.join(wd, "a.7z")
    old_cwd = os.getcwd()
    if opened in ("path", "relpath-chdir"):
        with open(path, "wb") as f:
            f.write(arch["blob"])
        src = path
        if opened == "relpath-chdir":
            # the natural way to extract into the current directory: open by a relative name, change directory, extract(path=None)
            os.chdir(wd)
            src = "a.7z"
    else:
        src = io.BytesIO(arch["blob"])
    try:
        with py7zr.SevenZipFile(src, password=arch.get("password")) as z:
            if sink == "factory":
                f = Collect()
                z.extract(targets=targ, recursive=recursive, factory=f)
                got = sorted(f.as_list())
                exp = sorted((m["name"], m["data"] or b"") for m in want if m["kind"] != "dir")
                if got != exp:
                    out.append(("factory-set", f"delivered {[n for n, _ in got]} expected {[n for n, _ in exp]}" if [n for n, _ in got] != [n for n, _ in exp] else "bytes differ from extractall"))
            else:
                dest = os.path.join(wd, "out")
                shutil.rmtree(dest, ignore_errors=True)
                os.makedirs(dest)
                if opened == "relpath-chdir":
                    os.chdir(dest)
                    z.extract(path=None, targets=targ, recursive=recursive)
                else:
                    z.extract(path=dest, targets=targ, recursive=recursive)
                snap = tree_snapshot(dest)
                files = {k: v[1] for k, v in snap.items() if v[0] == "file"}
                dirs = {k for k, v in snap.items() if v[0] == "dir"}
                expf = {m["name"]: (m["data"] or b"") for m in want if m["kind"] != "dir"}
                os.chdir(old_cwd)
                if set(files) != set(expf):
                    out.append(("dir-files", f"files created {sorted(files)} expected {sorted(expf)}"))
                else:
                    for k in files:
                        if files[k] != expf[k]:
                            out.append(("dir-bytes", f"{k}: bytes differ from extractall"))
                expd = {m["name"].rstrip("/") for m in want if m["kind"] == "dir"}
                parents = set()
                for m in want:
                    p = os.path.dirname(m["name"])
                    while p:
                        parents.add(p)
                        p = os.path.dirname(p)
                if not (expd <= dirs <= expd | parents):
                    out.append(("dir-dirs", f"directories created {sorted(dirs)}; selected directory members {sorted(expd)}, needed parents {sorted(parents)}"))
                shutil.rmtree(dest, ignore_errors=True)
    except Exception as ex:
        out.append(("exception", f"{type(ex).__name__}: {ex}"))
    finally:
        os.chdir(old_cwd)
    return out


def prefix_absent(names):
    for n in names:
        last = n.rsplit("/", 1)[-1]
        if len(last) >= 3:
            cand = n[: len(n) - len(last) + len(last) // 2]
            if cand not in names and not cand.endswith("/"):
                return cand
    return ABSENT + "2"


def all_cases(arch):
    names = [m["name"] for m in arch["members"]]
    for r in range(len(names) + 1):
        for sub in itertools.combinations(names, r):
            # absent names: none / one unrelated to every member / one that is a proper string prefix of a member name
            # (cut inside a component: "names in T that are not in the archive are ignored" - also by the recursive match)
            for absent in (None, ABSENT, prefix_absent(names)):
                if absent is not None and absent in names:
                    continue
                t = list(sub) + ([absent] if absent else [])
                for as_set in (False, True):
                    for slash in (False, True):
                        for recursive in (False, True):
                            for sink in ("factory", "dir"):
                                for opened in ("stream", "path"):
                                    yield {"targets": t, "as_set": as_set, "slash": slash, "recursive": recursive, "sink": sink, "opened": opened}
                            if not as_set and not slash and absent is None:
                                yield {"targets": t, "as_set": False, "slash": False, "recursive": recursive, "sink": "dir", "opened": "relpath-chdir"}


_ARCH = None


def shard(task):
    global _ARCH
    aid, lo, hi, reverse = task
    if _ARCH is None:
        _ARCH = build_archives()
    arch = _ARCH[aid]
    sh = Shard()
    wd = os.path.join(os.getcwd(), "c09")
    shutil.rmtree(wd, ignore_errors=True)
    os.makedirs(wd)
    for case in itertools.islice(all_cases(arch), lo, hi):
        if reverse:
            case = dict(case, targets=list(reversed(case["targets"])))
        r = run_case(arch, case, wd)
        want = expected(arch["members"], case["targets"], case["recursive"])
        sh.case((aid, case), nontrivial=0 < len(want) < len(arch["members"]), sample={"archive": aid, **case} if len(sh.samples) < 1 and len(case["targets"]) == 3 else None)
        for sym, msg in r:
            sh.violation({"archive": aid, "symptom": sym, "recursive": case["recursive"], "sink": case["sink"], "slash": case["slash"], "opened": case["opened"]},
                         f"{aid} targets={case['targets']} set={case['as_set']} slash={case['slash']} recursive={case['recursive']} {case['sink']}/{case['opened']}: {msg}",
                         {"archive": aid, "case": case})
    shutil.rmtree(wd, ignore_errors=True)
    return sh.result()


def replay(case):
    arch = build_archives()[case["archive"]]
    wd = "/dev/shm/c09r-%d" % os.getpid()
    os.makedirs(wd, exist_ok=True)
    try:
        return run_case(arch, case["case"], wd)
    finally:
        shutil.rmtree(wd, ignore_errors=True)


def main(tier="quick", seed=0, only=None):
    chk = Check("C09", "exploration", MODULE, tier, seed)
    archs = build_archives(tier)
    tasks = []
    for aid, a in archs.items():
        n = sum(1 for _ in all_cases(a))
        step = 512
        tasks += [(aid, lo, min(lo + step, n), False) for lo in range(0, n, step)]
        if tier == "thorough":
            tasks += [(aid, lo, min(lo + step, n), True) for lo in range(0, n, step)]
    with Pool() as pool:
        res = pool.map(f"{MODULE}:shard", tasks, soft=1800)
    for t, r in zip(tasks, res):
        chk.merge_pool([r], plane=t[0])
    return chk.finish(
        rule=(
            f"{len(archs)} archives (quick 6, thorough 9: directory entries stored after all files, as 7-Zip writes them; data at PackPos 11 with a file-less folder, dummy padding and folder-level CRCs; two solid folders behind BCJ+LZMA and PPMd; AES folders with an AES header; four single-file folders; a py7zr-written tree with an empty directory and a zero-length file plus an appended folder; reference-written solid LZMA2 folder with 7 entries incl. 2 directories, an empty file and nested files; the same "
            "entries in 3 folders COPY/LZMA2/BZIP2 with interleaved directories and an LZMA-encoded header; py7zr-written 3 append sessions "
            "COPY/LZMA2/COPY) x ALL 2^n subsets of member names x without / with an unrelated absent name / with an absent name that is a string prefix of a member name x list/set x trailing slash on/off x "
            "recursive False/True x factory/directory sink x opened by stream (sequential) / path (thread-parallel) / a relative name followed by chdir and extract(path=None); thorough: also "
            "with targets in reverse order. Oracle: delivered = named members (+ everything beneath named directory members when "
            "recursive), bytes identical to the members, nothing else created but needed parents. Non-trivial = a proper non-empty subset "
            "is selected."
        ),
        assumptions=["member names satisfy the property's prefix restriction; every intermediate directory is itself a member"],
        exhaustive=True,
    )
