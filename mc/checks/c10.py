"""C10 Listings tell the truth: every archive of the shared enumerations (py7zr-written configurations and
append sessions, reference-written layouts) is opened by path and all listing interfaces are compared
with the member map obtained by extraction and with the structure seen by the independent reader."""
from __future__ import annotations

import os
import shutil
import zlib

from mc.checks import c01, c07
from mc.core import explore
from mc.core.evidence import Check, Shard
from mc.core.pool import Pool, chunks
from mc.gen import archives, chains
from mc.lib7z import Collect, install_key_cache
from mc.ref import ref7z

MODULE = "mc.checks.c10"

DISPLAY = {"COPY": "COPY", "LZMA2": "LZMA2", "LZMA": "LZMA", "DELTA": "DELTA", "X86": "BCJ", "PPC": "PPC", "IA64": "IA64", "ARM": "ARM",
           "ARMT": "ARMT", "SPARC": "SPARC", "DEFLATE": "DEFLATE", "DEFLATE64": "DEFLATE64", "BZIP2": "BZip2", "ZSTD": "ZStandard",
           "PPMD": "PPMd", "BROTLI": "Brotli", "AES": "7zAES"}


def judge(path: str, password, supplied_password: bool, workdir: str):
    """Open by path and check every listing interface.  -> [(symptom, msg)]"""
    import py7zr

    out = []
    blob = open(path, "rb").read()
    try:
        ref = ref7z.read(blob, password=password, strict=False)
    except Exception as ex:
        return [("harness:ref-cannot-read", f"{type(ex).__name__}: {ex}")]
    model = ref["members"]
    # ground truth must be agreed on by both readers; otherwise the archive is C06/C08 business, not a listing question
    try:
        with py7zr.SevenZipFile(path, "r", password=password) as z0:
            f0 = Collect()
            z0.extractall(factory=f0)
        got = sorted(f0.as_list())
        want = sorted((m["name"], m["data"] or b"") for m in model if m["kind"] != "dir")
        if got != want:
            return [("harness:extraction-disagrees-with-reference", "")]
    except Exception as ex:
        # py7zr cannot extract an archive the reference reader decodes (a reader-conformance matter, C06): the listings are
        # still judged - against the bytes the format assigns to each member, which is what extraction would have to deliver
        out.append(("harness:extraction-raises", f"{type(ex).__name__}"))
    try:
        z = py7zr.SevenZipFile(path, "r", password=password if supplied_password else None)
    except Exception as ex:
        return [("open-exception", f"{type(ex).__name__}: {ex}")]
    try:
        names = [m["name"] for m in model]
        try:
            g, n, l, f = z.getnames(), z.namelist(), [i.filename for i in z.list()], [x.filename for x in z.files]
            if not (g == n == l == f):
                out.append(("listings-disagree", f"getnames={g} namelist={n} list={l} files={f}"))
            if g != names:
                out.append(("names-order", f"getnames={g} stored order={names}"))
        except Exception as ex:
            out.append(("listing-exception", f"{type(ex).__name__}: {ex}"))
            return out
        infos = z.list()
        for i, m in zip(infos, model):
            if m["kind"] == "file":
                data = m["data"]
                if i.uncompressed != len(data):
                    out.append(("size", f"{m['name']!r}: list() says {i.uncompressed}, member has {len(data)} bytes"))
                if i.crc32 is not None and i.crc32 != (zlib.crc32(data) & 0xFFFFFFFF):
                    out.append(("crc", f"{m['name']!r}: list() says {i.crc32:#x}, bytes have {zlib.crc32(data) & 0xFFFFFFFF:#x}"))
                # the archive records a CRC for this member (its own, or its folder's when it is the folder's only stream): it is reported
                if i.crc32 is None and m.get("crc") is not None:
                    out.append(("crc-not-reported", f"{m['name']!r}: the archive records CRC {m['crc']:#x} for it, list() says None"))
            else:
                if i.uncompressed not in (0, None):
                    out.append(("size", f"{m['name']!r}: empty entry listed with size {i.uncompressed}"))
        for nm in set(names):
            for variant in sorted({nm, nm.rstrip("/"), nm.rstrip("/") + "/"} - {""}):
                try:
                    gi = z.getinfo(variant)
                    if gi.filename != nm:
                        out.append(("getinfo", f"getinfo({variant!r}) returned {gi.filename!r}"))
                except Exception as ex:
                    out.append(("getinfo", f"getinfo({variant!r}) raised {type(ex).__name__}"))
        for absent in ("no/such/member", "", "zzz-absent"):
            if absent in names:
                continue
            try:
                z.getinfo(absent)
                out.append(("getinfo-absent", f"getinfo({absent!r}) did not raise"))
            except KeyError:
                pass
            except Exception as ex:
                out.append(("getinfo-absent", f"getinfo({absent!r}) raised {type(ex).__name__} instead of KeyError"))
        # --- summary
        try:
            ai = z.archiveinfo()
            total = sum(len(m["data"]) for m in model if m["kind"] == "file")
            if ai.uncompressed != total:
                out.append(("summary-total", f"archiveinfo().uncompressed={ai.uncompressed} members total {total}"))
            if ai.blocks != len(ref["folders"]):
                out.append(("summary-blocks", f"archiveinfo().blocks={ai.blocks} folders {len(ref['folders'])}"))
            solid = any(fo["nsub"] > 1 for fo in ref["folders"])
            if bool(ai.solid) != solid:
                out.append(("summary-solid", f"archiveinfo().solid={ai.solid} but folders hold {[fo['nsub'] for fo in ref['folders']]} files"))
            want = {DISPLAY.get(c, c) for fo in ref["folders"] for c in fo["coders"]}
            if set(ai.method_names) != want:
                out.append(("summary-methods", f"archiveinfo().method_names={ai.method_names} coders present {sorted(want)}"))
            if ai.size != len(blob):
                out.append(("summary-size", f"archiveinfo().size={ai.size} file has {len(blob)} bytes"))
        except Exception as ex:
            out.append(("summary-exception", f"archiveinfo() raised {type(ex).__name__}: {ex} (members={len(model)}, folders={len(ref['folders'])})"))
        # the same summary for an archive opened from a stream (docs/api.rst: filename and stat "become None")
        try:
            import io

            with py7zr.SevenZipFile(io.BytesIO(blob), "r", password=password if supplied_password else None) as zs:
                a2 = zs.archiveinfo()
            if (a2.blocks, bool(a2.solid), sorted(a2.method_names), a2.uncompressed) != (len(ref["folders"]), any(fo["nsub"] > 1 for fo in ref["folders"]), sorted({DISPLAY.get(c, c) for fo in ref["folders"] for c in fo["coders"]}), sum(len(m["data"]) for m in model if m["kind"] == "file")):
                out.append(("summary-stream", f"archiveinfo() of the archive opened from a stream: blocks={a2.blocks} solid={a2.solid} methods={a2.method_names} uncompressed={a2.uncompressed}"))
            if a2.filename is not None or a2.stat is not None:
                out.append(("summary-stream", f"archiveinfo() of a stream reports filename={a2.filename!r} stat={a2.stat!r}"))
        except Exception as ex:
            out.append(("summary-stream-exception", f"archiveinfo() on an archive opened from a stream raised {type(ex).__name__}: {ex}"))
        has_aes = any("AES" in fo["coders"] for fo in ref["folders"])
        try:
            np_ = z.needs_password()
            if bool(np_) != (has_aes or supplied_password):
                out.append(("needs-password", f"needs_password()={np_} AES coder present={has_aes} password supplied={supplied_password}"))
        except Exception as ex:
            out.append(("needs-password", f"raised {type(ex).__name__}"))
        # --- directory flags vs what extraction creates
        dest = os.path.join(workdir, "x10")
        shutil.rmtree(dest, ignore_errors=True)
        try:
            z.reset()
            z.extractall(path=dest)
            for i, m in zip(infos, model):
                p = os.path.join(dest, m["name"])
                isdir = os.path.isdir(p) and not os.path.islink(p)
                if bool(i.is_directory) != isdir and os.path.lexists(p):
                    out.append(("is-directory", f"{m['name']!r}: listed is_directory={i.is_directory}, extraction made {'a directory' if isdir else 'no directory'}"))
        except Exception as ex:
            out.append(("harness:extract-to-path-raises", f"{type(ex).__name__}: {ex}"))
        shutil.rmtree(dest, ignore_errors=True)
    finally:
        try:
            z.close()
        except Exception:
            pass
    return out


def sig(sym, msg, extra):
    s = {"symptom": sym}
    s.update(extra)
    return s


def ref_layout_cases():
    """Reference-written archives: default layout and single layout deviations."""
    from mc.gen.bases import PW

    members = [
        {"name": "docs", "kind": "dir", "data": None, "attr": ref7z.unix_attr("dir", 0o755), "mtime": 132223104000000000},
        {"name": "docs/a.txt", "kind": "file", "data": b"alpha " * 7, "attr": ref7z.unix_attr("file", 0o644), "mtime": 132223104000000001},
        {"name": "empty.bin", "kind": "emptyfile", "data": b"", "attr": ref7z.unix_attr("file", 0o600), "mtime": 132223104000000002},
        {"name": "b.bin", "kind": "file", "data": bytes(range(90)), "attr": ref7z.unix_attr("file", 0o755), "mtime": 132223104000000003},
        {"name": "c.bin", "kind": "file", "data": b"c" * 33, "attr": 0x20, "mtime": None},
    ]
    C, Z = [("COPY", {})], [("LZMA2", {})]
    base = {"folders": [[1, 3, 4]], "chains": [Z]}
    devs = [
        {}, {"folders": [[1], [3, 4]], "chains": [Z, C]}, {"folders": [[1], [3], [4]], "chains": [C, Z, [("BZIP2", {})]]},
        {"crc": "folder"}, {"crc": "none"}, {"crc": "both"}, {"pack_crc": True}, {"packpos": 9}, {"dummy": 4}, {"header": "lzma"}, {"header": "lzma2"},
        {"numunpack_omit": False, "folders": [[1], [3], [4]], "chains": [C, C, C]}, {"emptyfile": "always"}, {"alldef_shortcut": False},
        {"chains": [[("DELTA", {}), ("LZMA2", {})]]}, {"chains": [[("X86", {}), ("LZMA", {})]]}, {"chains": [[("BROTLI", {})]]}, {"chains": [[("PPMD", {})]]},
        {"chains": [[("ZSTD", {})]]}, {"chains": [[("DEFLATE", {})]]}, {"chains": [[("ARM", {}), ("LZMA2", {})]]},
        {"crc": "partial"}, {"folders": [[1], [3], [4]], "chains": [C, C, C], "pack_crc": "partial"},
        {"folders": [[1], [3, 4]], "chains": [Z, C], "pack_crc": True, "crc": "folder"},
    ]
    out = []
    for d in devs:
        L = dict(base)
        L.update(d)
        out.append({"members": members, "layout": L, "password": None, "label": str(d)})
    out.append({"members": members, "layout": {"folders": [[1, 3, 4]], "chains": [[("LZMA2", {}), ("AES", {})]]}, "password": PW, "label": "aes"})
    out.append({"members": members, "layout": {"folders": [[1, 3, 4]], "chains": [Z], "header": "lzma2+aes"}, "password": PW, "label": "aes-header-only"})
    out.append({"members": [members[0], members[2]], "layout": {}, "password": None, "label": "no-streams"})
    out.append({"members": [], "layout": {}, "password": None, "label": "empty"})
    # a directory stored with a trailing slash (writers that keep the caller's spelling): getinfo must find it either way
    slashed = [dict(members[0], name="docs/")] + members[1:]
    out.append({"members": slashed, "layout": dict(base), "password": None, "label": "dir-trailing-slash"})
    # packed header WITHOUT a CRC of its own (what py7zr releases before the CRC was added wrote, and some fixtures)
    out.append({"members": members, "layout": dict(base, header="lzma2", header_crc=False), "password": None, "label": "lzma2-header-nocrc"})
    out.append({"members": members, "layout": dict(base, header="copy", header_crc=False), "password": None, "label": "copy-header-nocrc"})
    return out


def shard(task):
    kind, arg = task
    sh = Shard()
    install_key_cache()
    wd = archives.fresh_dir("c10")
    path = os.path.join(wd, "a.7z")

    def run(blob, password, label, extra, case):
        with open(path, "wb") as f:
            f.write(blob)
        plain_header = True
        if password is not None:
            try:
                ref7z.read(blob, password=None, strict=False, decode=False)
            except Exception:
                plain_header = False  # the listing cannot be had without the password
        for supplied in ((True, False) if password is None or plain_header else (True,)):
            # password None + "supplied" means: a password is given although the archive needs none;
            # password set + not supplied: the header is readable without it, so the listings must be too
            pw = password if password is not None else ("unneeded-pw" if supplied else None)
            if password is None and supplied and not extra.get("try_unneeded_pw"):
                continue
            sup = supplied if password is not None else pw is not None
            r = judge(path, pw, sup, wd)
            case = dict(case, supplied=sup, unneeded=password is None and pw is not None)
            for sym, msg in r:
                if sym.startswith("harness:"):
                    sh.count(sym)
                    continue
                sh.violation(sig(sym, msg, {k: v for k, v in extra.items() if k != "try_unneeded_pw"}), f"{label}: {msg}", case)

    if kind == "P3":
        prefix, bound, seed = arg

        def body(ch):
            case = c01.p3_case(ch, seed)
            if case["target"] != "bytesio":
                case["target"] = "bytesio"  # the listing check re-opens by path itself
            return case

        def on_exec(ch, case):
            try:
                prod = archives.produce(case, os.path.join(wd, "w"))
            except Exception:
                sh.count("write_failed_not_judged")
                return
            sh.case(case, sample={"choices": ch.decoded()} if len(sh.samples) < 1 else None)
            run(prod["blob"], prod["password"], f"py7zr {case['chain']}/{case['header']}/{len(case['members'])} members",
                {"writer": "py7zr", "members": min(len(case["members"]), 2), "try_unneeded_pw": ch.cost() == 0}, {"kind": "case", "case": case})

        explore.explore(body, bound, on_exec, prefix=prefix)
    elif kind == "S":
        for spec in arg:
            blob, pw = session_blob(spec, wd)
            if blob is None:
                sh.count("session_raised_not_judged")
                continue
            sh.case(spec, sample=spec if len(sh.samples) < 1 else None)
            run(blob, pw, f"sessions {spec['sessions']}", {"writer": "py7zr-sessions", "kinds": sorted({s[0] for s in spec["sessions"]})},
                {"kind": "sessions", "spec": spec})
    elif kind == "L":
        # the layout space of C06 (every single deviation of the default layout per logical member list)
        from mc.checks import c06

        specs, bound = arg
        for spec in specs:
            def body(ch, spec=spec):
                members, L, pw = c06.build_case(ch, spec)
                try:
                    return ref7z.write(members, L, password=pw), pw
                except Exception:
                    return None, pw

            def on_exec(ch, res, spec=spec):
                blob, pw = res
                if blob is None:
                    sh.count("reference_cannot_write_not_judged")
                    return
                sh.case(("L", spec, ch.choices), sample={"members": spec, "deviations": ch.decoded()} if len(sh.samples) < 1 and ch.cost() else None)
                devs = sorted({lbl.split("[")[0] for lbl, _ in ch.decoded()})
                run(blob, pw, f"ref members={spec} deviations={ch.decoded()}", {"writer": "ref-layout", "deviations": devs},
                    {"kind": "layout", "spec": spec, "choices": ch.choices})

            explore.explore(body, bound, on_exec, prefix=[])
    elif kind == "R":
        for rc in arg:
            blob = ref7z.write(rc["members"], rc["layout"], password=rc["password"])
            sh.case((rc["label"],), sample={"ref_layout": rc["label"]} if len(sh.samples) < 2 else None)
            run(blob, rc["password"], f"ref layout {rc['label']}", {"writer": "ref", "layout": rc["label"][:60]}, {"kind": "ref", "label": rc["label"]})
    shutil.rmtree(wd, ignore_errors=True)
    return sh.result()


def session_blob(spec, wd):
    """Run the C07 session spec and return (blob, password) or (None, None) when a session raises."""
    import io

    import py7zr

    root = os.path.join(wd, "src")
    c07.make_tree(root)
    path = os.path.join(wd, "s.7z")
    if os.path.exists(path):
        os.remove(path)
    pw = archives.PASSWORD if any(chains.needs_password(c) or h == "encrypted" for _, c, h in spec["sessions"]) else None
    old = os.getcwd()
    os.chdir(root)
    try:
        for n, (mk, chain, header) in enumerate(spec["sessions"]):
            filters = chains.py_filters(chain)
            with py7zr.SevenZipFile(path, "w" if n == 0 else "a", filters=filters, password=pw) as z:
                if header == "raw":
                    z.set_encoded_header_mode(False)
                elif header == "encrypted":
                    z.set_encrypted_header(True)
                for api, name, data in c07.SESSION_MEMBERS[mk]:
                    name = name.replace("{n}", str(n))
                    if api == "writestr":
                        z.writestr(data.replace(b"{n}", str(n).encode()), name)
                    elif api == "writef":
                        z.writef(io.BytesIO(data), name)
                    elif api == "write":
                        z.write(name)
                    else:
                        z.writeall(name)
    except Exception:
        return None, None
    finally:
        os.chdir(old)
    return open(path, "rb").read(), pw


def replay(case):
    wd = archives.fresh_dir("c10r")
    path = os.path.join(wd, "a.7z")
    try:
        if case["kind"] == "case":
            prod = archives.produce(case["case"], os.path.join(wd, "w"))
            blob, pw = prod["blob"], prod["password"]
        elif case["kind"] == "sessions":
            blob, pw = session_blob(case["spec"], wd)
        elif case["kind"] == "layout":
            from mc.checks import c06

            members, L, pw = c06.build_case(explore.Chooser(list(case["choices"])), case["spec"])
            blob = ref7z.write(members, L, password=pw)
        else:
            rc = next(r for r in ref_layout_cases() if r["label"] == case["label"])
            blob, pw = ref7z.write(rc["members"], rc["layout"], password=rc["password"]), rc["password"]
        with open(path, "wb") as f:
            f.write(blob)
        if case.get("unneeded"):
            pw = "unneeded-pw"
        return judge(path, pw, case.get("supplied", pw is not None), wd)
    finally:
        shutil.rmtree(wd, ignore_errors=True)


def mixed_specs(tier):
    """Sessions whose folders differ in coders - in particular encrypted next to unencrypted folders (added after seeded change C10b)."""
    A, P = ("LZMA2+AES", "raw"), ("LZMA2", "raw")
    combos = [(P, A), (A, P), (P, A, P), (A, ("COPY", "encoded")), (("BZIP2", "raw"), ("COPY+AES", "encoded"))]
    if tier != "quick":
        combos += [(A, A, P), (P, P, A), (("DELTA+LZMA2+AES", "raw"), ("ZSTD", "raw")), (("PPMD", "raw"), ("X86+LZMA2+AES", "raw"), ("BROTLI", "raw"))]
    kinds = ("str1", "str2") if tier == "quick" else ("str1", "str2", "tree", "zero")
    out = []
    for combo in combos:
        for mk in kinds:
            out.append({"sessions": [(mk if i != 1 else "str1", c, h) for i, (c, h) in enumerate(combo)], "target": "path"})
    return out


def main(tier="quick", seed=0, only=None):
    chk = Check("C10", "exploration", MODULE, tier, seed)
    bound = 1 if tier == "quick" else 2
    tasks = []
    probe = explore.Chooser([])
    c01.p3_case(probe, seed)
    tasks.append(("P3", ([], 0, seed)))
    tasks += [("P3", (child, bound, seed)) for child in explore.children(probe, 0, bound)]
    specs = [s for s in c07.session_specs(tier) if len(s["sessions"]) <= (2 if tier == "quick" else 3) and s["target"] == "path"]
    specs += mixed_specs(tier)
    tasks += [("S", c) for c in chunks(specs, 10)]
    tasks += [("R", c) for c in chunks(ref_layout_cases(), 4)]
    from mc.checks import c06

    lists = [sp for sp in c06.logical_lists(tier) if 0 < len(sp) <= (3 if tier == "quick" else 4)] + ["DFEFD", "FDFDF", "EFDLF", "LFLFD"]
    tasks += [("L", (c, 1)) for c in chunks(lists, 4)]
    with Pool() as pool:
        res = pool.map(f"{MODULE}:shard", tasks, soft=1800)
    for t, r in zip(tasks, res):
        chk.merge_pool([r], plane=t[0])
    return chk.finish(
        rule=(
            f"archives: C01-P3 configurations within {bound} deviation(s) of the default; C07 append sessions (every single session and ordered "
            "pair over 8 member-list kinds incl. directories, empty files, symlinks; thorough: triples), sessions whose folders mix encrypted and unencrypted chains, each also opened WITHOUT the password when the header is readable without it; reference-written layouts (default + "
            f"each single layout deviation, AES, header-only AES, no-streams, empty) and the C06 layout space: {len(lists)} logical member lists (every list of <= {3 if tier == 'quick' else 4} entries over file / zero-length / empty file / directory / symlink plus longer interleavings) under EVERY single layout deviation (folder partition, file-less folder, 18 chains, CRC placement, packed CRCs, gaps, dummy padding, 6 header encodings, undefined metadata ...). Each is written to a file, opened by path and judged: "
            "getnames == namelist == list() == files in stored order; sizes and CRCs against the bytes; getinfo for every name with and "
            "without trailing slash, KeyError for absent; archiveinfo() total / blocks / solid / method names / size against the structure "
            "seen by ref7z; needs_password() <=> AES coder or password supplied; is_directory <=> extraction creates a directory."
        ),
        assumptions=["structure (folders, coders, substreams) is taken from ref7z.read of the same bytes"],
        exhaustive=False,
    )
