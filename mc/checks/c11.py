"""C11 Encryption: nothing leaks, nothing is delivered without the right password.  Full product of AES chains x
header-encryption mode x passwords x wrong-password classes on py7zr-written archives, plus reference-written
low-cycle archives attacked with every single-edit neighbour of the password."""
from __future__ import annotations

import io
import itertools
import os

from mc.core.evidence import Check, Shard
from mc.core.pool import Pool, chunks
from mc.gen import chains, content
from mc.lib7z import fixed_random, Collect, install_key_cache
from mc.ref import ref7z

MODULE = "mc.checks.c11"
PASSWORDS = ["", "a", "pässwörd", "パスワード", "\U0001D52D\U0001D534", "Correct-Horse-Battery-Staple-0123456789-abcdefghijklmnopqrstuvwxyz!"]
HEADER_MODES = ["off", "ctor", "setter"]
MEMBERS = [("secret-report-2026.txt", content.make("marker", 150, 11)), ("confidential/ünïcode-名前-\U0001F512.bin", content.make("marker", 64, 22)),
           ("tiny-but-marked.dat", content.make("marker", 24, 33))]


# member-list / API variants: "str" = the three marker members through writestr; "blocks" = members whose lengths sit on and
# around the AES block size (16k-1, 16k, 16k+1) through writef; "file" = the marker members through write() from files on disk
VARIANTS = {
    "str": MEMBERS,
    "blocks": [(f"block-aligned-{n:03d}.dat", content.make("marker", n, 40 + n)) for n in (31, 32, 33, 48, 64, 95)],
    "file": MEMBERS,
}
_CUR = {"variant": "str"}


def utf16_twin(pw: str):
    """The password with every astral character replaced by the BMP character that shares its low 16 bits (what a key
    derivation sees if it keeps 16 bits per character instead of encoding UTF-16 properly)."""
    out = []
    for c in pw:
        low = ord(c) & 0xFFFF
        out.append(chr(low) if ord(c) > 0xFFFF and not 0xD800 <= low <= 0xDFFF and low != 0 else c)
    return "".join(out)


def wrong_passwords(pw: str):
    out = ["different-password", pw[:-1] if pw else "x", pw.swapcase() if pw.swapcase() != pw else pw + "A", pw + "x", utf16_twin(pw), pw.strip() if pw.strip() != pw else " " + pw, None]
    return [w for w in dict.fromkeys(out) if w != pw]


def write_archive(chain, hmode, pw):
    import py7zr

    bio = io.BytesIO()
    kw = {"header_encryption": True} if hmode == "ctor" else {}
    with py7zr.SevenZipFile(bio, "w", filters=chains.py_filters(chain), password=pw, **kw) as z:
        if hmode == "setter":
            z.set_encrypted_header(True)
        v = _CUR["variant"]
        if v == "str":
            for n, d in MEMBERS:
                z.writestr(d, n)
        elif v == "blocks":
            for n, d in MEMBERS:
                z.writef(io.BytesIO(d), n)
        else:
            import shutil
            import tempfile

            td = tempfile.mkdtemp(prefix="c11f", dir="/dev/shm")
            try:
                for i, (n, d) in enumerate(MEMBERS):
                    fp = os.path.join(td, f"src{i}")
                    with open(fp, "wb") as f:
                        f.write(d)
                    z.write(fp, arcname=n)
            finally:
                shutil.rmtree(td, ignore_errors=True)
    return bio.getvalue()


def attempt(blob, pw):
    """-> ('raise', excname, delivered) | ('ok', delivered)"""
    import py7zr

    f = Collect()
    try:
        with py7zr.SevenZipFile(io.BytesIO(blob), password=pw) as z:
            z.getnames()
            z.extractall(factory=f)
        return ("ok", f.as_list())
    except Exception as ex:
        return ("raise", type(ex).__name__, f.as_list())


def windows(data: bytes, w: int):
    return {data[i : i + w] for i in range(0, len(data) - w + 1)}


def judge_written(chain, hmode, pw, variant="str"):
    global MEMBERS
    _CUR["variant"] = variant
    MEMBERS = VARIANTS[variant]
    out = []
    blob = write_archive(chain, hmode, pw)
    blob2 = write_archive(chain, hmode, pw)
    # 1. plaintext windows
    for n, d in MEMBERS:
        for i in range(0, len(d) - 24 + 1, 4):
            if d[i : i + 24] in blob:
                out.append(("plaintext-leak", f"24 bytes of {n!r} at offset {i} appear in the archive"))
                break
    # 2. compressed-but-unencrypted form: decode the packed streams as if the AES coder were absent
    try:
        info = ref7z.read(blob, password=pw, strict=False, decode=False)
        pos = 32 + info["header"].get("packpos", 0) if info["header"]["kind"] == "raw" else 32
        pos = 32
        for fo in info["folders"]:
            size = fo["packsizes"][0]
            packed = blob[pos : pos + size]
            pos += size
            rest = [(c, p) for c, p in zip(fo["coders"], fo["props"]) if c != "AES"]
            data = packed
            try:
                for c, p in rest:
                    data = ref7z.decode_coder(ref7z.NAME_TO_METHOD[c], p, data, 1 << 20, None)
                for n, d in MEMBERS:
                    if d[:24] in data:
                        out.append(("decodable-compressed-form", f"decoding the packed stream without the AES stage yields plaintext of {n!r}"))
            except Exception:
                pass
    except Exception as ex:
        out.append(("harness:structure", f"{type(ex).__name__}: {ex}"))
        info = None
    # 3. names with header encryption
    if hmode != "off":
        for n, _ in MEMBERS:
            for enc in ("utf-16-le", "utf-8"):
                e = n.encode(enc)
                if e[: min(len(e), 12)] in blob:
                    out.append(("name-leak", f"{n!r} ({enc}) appears in an archive with header encryption"))
        try:
            r = ref7z.read(blob, password=None, strict=False, decode=False)
            if any(m["name"] for m in r["members"]):
                out.append(("name-leak", "the header can be parsed without the key and names members"))
        except ref7z.NeedPassword:
            pass
        except Exception:
            pass
    # 4. IV / ciphertext uniqueness
    if info is not None:
        ivs = []
        for b in (blob, blob2):
            try:
                i2 = ref7z.read(b, password=pw, strict=False, decode=False)
                for fo in i2["folders"]:
                    for c, p in zip(fo["coders"], fo["props"]):
                        if c == "AES":
                            b0, b1 = p[0], p[1]
                            ss = ((b0 >> 7) & 1) + (b1 >> 4)
                            iv = p[2 + ss :]
                            ivs.append(iv)
            except Exception as ex:
                out.append(("harness:iv", str(ex)))
        if any(not any(iv) for iv in ivs):
            out.append(("zero-iv", "an all-zero IV was used"))
        if len(set(ivs)) != len(ivs):
            out.append(("iv-reuse", f"IVs repeat within/between two archives made from the same input and password: {[iv.hex() for iv in ivs]}"))
        common = windows(blob[32:], 16) & windows(blob2[32:], 16)
        # (structural header bytes may coincide when the header is not encrypted; ciphertext blocks must not)
        a, b_ = 32, 32 + sum(fo["packsizes"][0] for fo in info["folders"])
        c1, c2 = blob[a:b_], blob2[a:b_]
        if {c1[i : i + 16] for i in range(0, len(c1) - 15, 16)} & {c2[i : i + 16] for i in range(0, len(c2) - 15, 16)}:
            out.append(("ciphertext-reuse", "two archives from the same input and password share a ciphertext block"))
    # 5. right / absent / wrong password
    r = attempt(blob, pw)
    if r[0] != "ok" or r[1] != MEMBERS:
        out.append(("right-password-fails", f"{r[:2]!r:.120}"))
    for w in wrong_passwords(pw):
        r = attempt(blob, w)
        if r[0] == "ok":
            if r[1] != MEMBERS:
                out.append(("wrong-password-delivers-other-bytes", f"password {w!r}: extraction returned normally with different content"))
            elif w is None:
                out.append(("no-password-delivers", "extraction without a password delivered the members"))
            else:
                out.append(("wrong-password-accepted", f"password {w!r} extracted the members"))
        elif w is None:
            if r[1] != "PasswordRequired":
                out.append(("no-password-wrong-exception", f"raised {r[1]} instead of PasswordRequired"))
            if any(d for _, d in r[2]):  # (an empty sink opened before the decoder asks for the password is not content)
                out.append(("no-password-delivers", f"{sum(len(d) for _, d in r[2])} bytes were delivered without a password"))
    # 6. an append session reads the header too: on a header-encrypted archive a wrong or absent password must be an
    #    error, and the archive must still be what it was (not silently replaced by a new one)
    if hmode != "off":
        import py7zr

        for w in wrong_passwords(pw):
            bio = io.BytesIO(blob)
            try:
                with fixed_random("c11-append"), py7zr.SevenZipFile(bio, "a", password=w) as z:
                    z.writestr(b"appended-with-the-wrong-password-" * 2, "appended-member.txt")
                raised = False
            except Exception:
                raised = True
            if not raised:
                r = attempt(bio.getvalue(), pw)
                kept = r[0] == "ok" and r[1][: len(MEMBERS)] == MEMBERS
                out.append(("wrong-password-append-accepted", f"append session with password {w!r} on a header-encrypted archive succeeds; original members still readable: {kept}"))
            elif bio.getvalue() != blob:
                out.append(("failed-append-modified-archive", f"append session with password {w!r} raised but changed the archive bytes"))
    return out


def neighbours(pw: str):
    alpha = "aZ0é"
    out = set()
    for i in range(len(pw) + 1):
        for c in alpha:
            out.add(pw[:i] + c + pw[i:])
    for i in range(len(pw)):
        out.add(pw[:i] + pw[i + 1 :])
        for c in alpha:
            out.add(pw[:i] + c + pw[i + 1 :])
        out.add(pw[:i] + pw[i].swapcase() + pw[i + 1 :])
    out.discard(pw)
    return sorted(out)


def judge_ref(layout_name, pw):
    """Reference-written archive with 2^cycles small: every single-edit neighbour of the password must fail."""
    layouts = {
        "copy+aes-c4": {"folders": [[0, 1, 2]], "chains": [[("COPY", {}), ("AES", {})]], "aes": {"cycles": 4, "salt": b"", "iv": bytes(range(1, 9))}},
        "lzma2+aes-c0-salt": {"folders": [[0], [1, 2]], "chains": [[("LZMA2", {}), ("AES", {})]] * 2, "aes": {"cycles": 0, "salt": b"NaCl", "iv": bytes(range(1, 17))}},
        "aes-header-c4": {"folders": [[0, 1, 2]], "chains": [[("COPY", {}), ("AES", {})]], "header": "lzma2+aes", "aes": {"cycles": 4, "salt": b"", "iv": bytes(range(2, 10))}},
        # 7zAES as the ONLY coder, integrity carried by folder-level CRCs only (no per-file CRC section): the wrong key must still be noticed
        "aes-only-foldercrc-c4": {"folders": [[0], [1, 2]], "chains": [[("AES", {})]] * 2, "crc": "folder", "aes": {"cycles": 4, "salt": b"", "iv": bytes(range(1, 9))}},
    }
    global MEMBERS
    MEMBERS = VARIANTS["str"]
    members = [{"name": n, "kind": "file", "data": d, "attr": 0x20, "mtime": 132223104000000000} for n, d in MEMBERS]
    blob = ref7z.write(members, layouts[layout_name], password=pw)
    out = []
    r = attempt(blob, pw)
    if r[0] != "ok" or sorted(r[1]) != sorted(MEMBERS):
        return [("harness:ref-archive-not-readable-with-right-password", f"{r[:2]!r:.100}")], 0
    n = 0
    for w in neighbours(pw):
        n += 1
        r = attempt(blob, w)
        if r[0] == "ok":
            out.append(("wrong-password-accepted" if r[1] == MEMBERS else "wrong-password-delivers-other-bytes", f"{layout_name}: password {w!r} (right: {pw!r}) was accepted"))
    return out, n


def shard(task):
    kind, arg = task
    sh = Shard()
    install_key_cache()
    if kind == "written":
        for chain, hmode, pw, variant in arg:
            r = judge_written(chain, hmode, pw, variant)
            sh.case((chain, hmode, pw, variant), sample={"chain": chain, "header_encryption": hmode, "password": pw, "members": variant} if len(sh.samples) < 2 else None)
            for sym, msg in r:
                if sym.startswith("harness:"):
                    sh.count(sym)
                    continue
                sh.violation({"symptom": sym, "chain": chain, "header": hmode}, f"{chain}/{hmode}/{pw!r}: {msg}", {"kind": "written", "chain": chain, "hmode": hmode, "pw": pw, "variant": variant})
    else:
        for layout, pw in arg:
            r, n = judge_ref(layout, pw)
            sh.evals += n
            sh.case((layout, pw), sample={"ref_layout": layout, "password": pw, "wrong_passwords_tried": n} if len(sh.samples) < 1 else None)
            sh.count("wrong_password_attempts", n)
            for sym, msg in r:
                if sym.startswith("harness:"):
                    sh.count(sym)
                    continue
                sh.violation({"symptom": sym, "layout": layout}, msg, {"kind": "ref", "layout": layout, "pw": pw})
    return sh.result()


def replay(case):
    install_key_cache()
    if case["kind"] == "written":
        return [v for v in judge_written(case["chain"], case["hmode"], case["pw"], case.get("variant", "str")) if not v[0].startswith("harness:")]
    return judge_ref(case["layout"], case["pw"])[0]


def main(tier="quick", seed=0, only=None):
    chk = Check("C11", "exploration", MODULE, tier, seed)
    cs = chains.FAMILIES_AES if tier == "thorough" else ["COPY+AES", "AES", "LZMA2+AES", "BZIP2+AES", "ZSTD+AES", "X86+LZMA2+AES", "PPMD+AES", "DEFLATE+AES"]
    cs = [c for c in cs if c in chains.ALL]
    pws = PASSWORDS if tier == "thorough" else PASSWORDS[:5]
    cases = list(itertools.product(cs, HEADER_MODES, pws, ["str"])) + list(itertools.product(cs, HEADER_MODES, pws[1:3] if tier == "quick" else pws, ["blocks", "file"]))
    tasks = [("written", c) for c in chunks(cases, 3)]
    refs = list(itertools.product(["copy+aes-c4", "lzma2+aes-c0-salt", "aes-header-c4", "aes-only-foldercrc-c4"], ["pässwörd", "a", "Tr0ub4dor&3"]))
    tasks += [("ref", [c]) for c in refs]
    with Pool() as pool:
        res = pool.map(f"{MODULE}:shard", tasks, soft=3000)
    for t, r in zip(tasks, res):
        chk.merge_pool([r], plane=t[0])
    return chk.finish(
        rule=(
            f"full product {len(cs)} chains ending in 7zAES (incl. AES alone and Copy+AES) x header encryption off / constructor flag / setter x {len(pws)} "
            "passwords (empty, 1 char, Latin-1, kana, astral, 70 chars) on members with marker plaintext and marker names (three members through writestr; the same through write() from files; six members of 31/32/33/48/64/95 bytes - on and around the AES block size - through writef). Per archive: no 24-byte window "
            "of any member in the raw bytes; decoding each packed stream with the AES stage left out never yields plaintext; with header "
            "encryption neither UTF-16LE nor UTF-8 names appear and a keyless parse names no member; two archives of the same input "
            "and password differ in every IV and every ciphertext block, no IV is zero; right password round-trips; absent password raises "
            "PasswordRequired and creates no product; 6 wrong-password classes (different, prefix, case-changed, +1 char, astral characters cut to their low 16 bits, leading space) never return normally. "
            "Plus 12 reference-written archives (2^0 / 2^4 KDF rounds, salt, 8/16-byte IV, AES header, 7zAES as the only coder with folder-level CRCs only) attacked with EVERY single-edit "
            "neighbour (insertion, deletion, substitution, case flip) of the password. evaluations include the wrong-password attempts."
        ),
        assumptions=["the 7zAES key derivation of py7zr is memoised; ref7z uses its own KDF", "AES/SHA-256 primitives (Cryptodome, hashlib) are trusted"],
        exhaustive=True,
    )
