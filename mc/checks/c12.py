"""C12 Read sessions are repeatable and never modify the archive: explicit-state BFS over call
histories in the property's language, every history replayed on a freshly opened real SevenZipFile;
differential oracle against the freshly opened archive, verdict oracle on intact and damaged copies,
SHA-256 of the archive after every ending (close / context-manager exit / exception)."""
from __future__ import annotations

import hashlib
import io
import os
import shutil
import signal

from mc.core import bfs
from mc.core.evidence import Check, digest
from mc.core.pool import Pool, SoftTimeout
from mc.gen import chains, content
from mc.lib7z import Collect, install_key_cache, seams, tree_snapshot

MODULE = "mc.checks.c12"
PW = "s3cr3t-ß"
OPS = ["getnames", "list", "getinfo", "archiveinfo", "needs_password", "test", "testzip", "xall_f", "xall_p", "x_T1", "x_T2", "reset"]
DECODING = {"testzip", "xall_f", "xall_p", "x_T1", "x_T2", "xall_here"}
EXTRACTING = {"xall_f", "xall_p", "x_T1", "x_T2", "xall_here"}
ENDINGS = ["close", "with", "exc"]
PER_CALL_S = 20.0

KNOWN_SZ = {"_block_size", "_filePassed", "afterheader", "dereference", "encoded_header_mode", "filename", "files", "fp", "header",
            "header_encryption", "mode", "mp", "password_protected", "q", "reporterd", "sig_header", "worker"}
KNOWN_WORKER = {"concurrent", "current_file_index", "files", "header", "last_file_index", "src_start", "target_filepath"}
KNOWN_DEC = {"_buf", "_pos", "_unpacked", "_unpacksizes", "_unused", "block_size", "chain", "consumed", "crc", "digest", "input_size",
             "methods_map", "unpacksizes"}


# ---------------------------------------------------------------------------------------------
def build_archives():
    import py7zr

    install_key_cache()
    out = {}
    m = [("a.txt", content.make("repetitive", 40, 1)), ("d/b.bin", content.make("random", 25, 2)), ("d/e/c.dat", content.make("x86", 31, 3))]

    def write(filters, members, password=None, base=None, header="raw"):
        bio = io.BytesIO(base or b"")
        with py7zr.SevenZipFile(bio, "a" if base else "w", filters=filters, password=password) as z:
            if header == "raw":
                z.set_encoded_header_mode(False)
            for n, d in members:
                z.writestr(d, n)
        return bio.getvalue()

    copy = chains.py_filters("COPY")
    out["A1"] = {"blob": write(copy, m), "password": None, "members": m}
    b = write(copy, m[:1])
    b = write(chains.py_filters("LZMA2"), [("s1/x", m[1][1]), ("s1/y", m[2][1])], base=b)
    b = write(copy, [("s2/z", m[0][1][:11])], base=b)
    out["A3"] = {"blob": b, "password": None, "members": [m[0], ("s1/x", m[1][1]), ("s1/y", m[2][1]), ("s2/z", m[0][1][:11])]}
    mz = m + [("empty", b"")]
    out["AZ"] = {"blob": write(chains.py_filters("LZMA2"), mz, header="encoded"), "password": None, "members": mz}
    out["AE"] = {"blob": write(chains.py_filters("COPY+AES"), m, password=PW), "password": PW, "members": m}
    # several coders in one folder that liblzma decodes natively as one chain (py7zr's default filters are BCJ+LZMA2):
    # the decoder is rebuilt from the folder's coder list every time the folder is decoded again (seeded change C12e)
    out["AB"] = {"blob": write(chains.py_filters("X86+LZMA2"), m, header="encoded"), "password": None, "members": m}
    out["AD"] = {"blob": write(chains.py_filters("DELTA+LZMA2"), m), "password": None, "members": m}
    # a member named like the archive file itself (an older generation of a backup inside the newer one)
    mo = m + [("arch.7z", b"older generation of this archive " * 3)]
    out["AO"] = {"blob": write(copy, mo), "password": None, "members": mo}
    # no streams at all: a directory and an empty file, written by the reference writer without a MainStreamsInfo section
    # (what 7-Zip writes for such a tree; py7zr's own writer always emits the section)
    from mc.ref import ref7z

    mn = [{"name": "d", "kind": "dir", "data": None, "mtime": 132223104000000000, "attr": 0x10},
          {"name": "d/e.txt", "kind": "emptyfile", "data": b"", "mtime": 132223104000000001, "attr": 0x20}]
    out["AN"] = {"blob": ref7z.write(mn), "password": None, "members": [("d", None), ("d/e.txt", b"")]}
    # damaged copies: one byte inside the first packed stream
    for src, dst in (("A1", "D1"), ("AE", "DE"), ("A3", "D3")):
        img = bytearray(out[src]["blob"])
        img[32 + 5] ^= 0x40
        out[dst] = {"blob": bytes(img), "password": out[src]["password"], "members": out[src]["members"], "damaged": True}
    return out


class RaisingFactory:
    def create(self, filename):
        raise RuntimeError("injected: cannot create output")


def _mk_raising():
    from py7zr.io import WriterFactory

    class RF(WriterFactory):
        def create(self, filename):
            raise RuntimeError("injected: cannot create output")

    return RF()


def do_op(z, op, arch, wd):
    """Perform one call; returns a canonical, comparable result."""
    names = [n for n, _ in arch["members"]]
    t1 = [names[0]]
    t2 = [names[-1], "absent/name"]
    try:
        if op == "getnames":
            return ("ok", z.getnames())
        if op == "list":
            return ("ok", [(i.filename, i.uncompressed, i.crc32, i.is_directory) for i in z.list()])
        if op == "getinfo":
            return ("ok", z.getinfo(names[-1]).filename)
        if op == "archiveinfo":
            a = z.archiveinfo()
            return ("ok", (a.blocks, a.solid, a.uncompressed, tuple(a.method_names), a.size))
        if op == "needs_password":
            return ("ok", z.needs_password())
        if op == "test":
            return ("ok", z.test())
        if op == "testzip":
            return ("ok", z.testzip())
        if op == "reset":
            return ("ok", z.reset())
        if op in ("xall_f", "x_T1", "x_T2"):
            f = Collect()
            if op == "xall_f":
                z.extractall(factory=f)
            else:
                z.extract(targets=t1 if op == "x_T1" else t2, factory=f)
            return ("ok", sorted((n, digest(d)) for n, d in f.as_list()))
        if op == "xall_here":
            # extraction into the directory that holds the archive itself (the archive has a member named like it)
            z.extractall(path=wd)
            return ("ok", sorted(n for n in os.listdir(wd) if n not in ("arch.7z", "out")))
        if op == "xall_p":
            dest = os.path.join(wd, "out")
            shutil.rmtree(dest, ignore_errors=True)
            z.extractall(path=dest)
            snap = tree_snapshot(dest)
            shutil.rmtree(dest, ignore_errors=True)
            return ("ok", sorted((k, v[0], digest(v[1]) if v[1] is not None else None) for k, v in snap.items()))
        raise ValueError(op)
    except SoftTimeout:
        raise
    except Exception as ex:
        return ("raise", type(ex).__name__)


def open_archive(arch, mode, wd):
    import py7zr

    path = os.path.join(wd, "arch.7z")
    with open(path, "wb") as f:
        f.write(arch["blob"])
    holder = {"path": path}
    if mode == "path":
        z = py7zr.SevenZipFile(path, "r", password=arch["password"])
    elif mode == "bytesio":
        holder["bio"] = io.BytesIO(arch["blob"])
        z = py7zr.SevenZipFile(holder["bio"], "r", password=arch["password"])
    else:
        holder["fobj"] = open(path, "rb")
        z = py7zr.SevenZipFile(holder["fobj"], "r", password=arch["password"])
    return z, holder


def image_of(holder):
    if "bio" in holder:
        return holder["bio"].getvalue()
    return open(holder["path"], "rb").read()


def canon(z, hist):
    """Census of every mutable field reachable from the session object (DESIGN 2.3)."""
    unknown = (set(vars(z)) - KNOWN_SZ) | (set(vars(z.worker)) - KNOWN_WORKER)
    folders = []
    ms = getattr(z.header, "main_streams", None)
    if ms is not None:
        for f in ms.unpackinfo.folders:
            d = f.decompressor
            if d is None:
                folders.append(None)
            else:
                unknown |= set(vars(d)) - KNOWN_DEC
                folders.append((d.consumed, tuple(d._unpacked), len(d._buf), d._pos, d.digest, len(d._unused)))
    decoded = False
    for op in hist:
        if op == "reset":
            decoded = False
        elif op in DECODING:
            decoded = True
    try:
        pos = z.fp.tell()
    except Exception:
        pos = -1
    kinds = sorted(type(v).__name__ for v in z.worker.target_filepath.values())
    derived = sum(len(fi) for fi in z.files.files_list) if hasattr(z.files, "files_list") else 0
    key = (pos, tuple(folders), tuple(kinds), z.q.qsize(), z.reporterd is not None, z.password_protected, decoded, derived,
           z.worker.current_file_index, z.worker.last_file_index)
    return digest(repr(key)), sorted(unknown)


_FRESH: dict = {}


def fresh_results(ctx, wd):
    k = (ctx["arch_id"], ctx["mode"])
    if k not in _FRESH:
        arch = ctx["arch"]
        res = {}
        for op in OPS:
            z, holder = open_archive(arch, ctx["mode"], wd)
            try:
                res[op] = do_op(z, op, arch, wd)
            finally:
                try:
                    z.close()
                except Exception:
                    pass
                if "fobj" in holder:
                    holder["fobj"].close()
        _FRESH[k] = res
    return _FRESH[k]


def run_history(ctx, hist, wd):
    """Replay hist on a fresh session; oracle on the LAST call (prefixes were judged when they were explored),
    then all three endings with the archive digest compared."""
    arch = ctx["arch"]
    damaged = arch.get("damaged", False)
    fresh = None if damaged else fresh_results(ctx, wd)
    viol = []
    before = hashlib.sha256(arch["blob"]).hexdigest()
    key = None
    unknown = []
    for ending in (ENDINGS if ctx.get("all_endings", True) else ENDINGS[:1]):
        z, holder = open_archive(arch, ctx["mode"], wd)
        last = None
        signal.setitimer(signal.ITIMER_REAL, PER_CALL_S * (len(hist) + 2))
        try:
            try:
                for i, op in enumerate(hist):
                    last = do_op(z, op, arch, wd)
                if key is None:
                    key, unknown = canon(z, hist)
                if ending == "close":
                    z.close()
                elif ending == "with":
                    with z:
                        pass
                else:
                    try:
                        with z:
                            decoded = any(o in DECODING for o in hist[max([i for i, o in enumerate(hist) if o == "reset"], default=-1) + 1:])
                            if decoded:
                                z.getinfo("absent/for-exception")
                            else:
                                z.extractall(factory=_mk_raising())
                            viol.append(({"symptom": "injected-exception-swallowed"}, "the injected exception did not reach the caller"))
                    except (RuntimeError, KeyError):
                        pass
            except SoftTimeout:
                viol.append(({"symptom": "hang", "last_op": hist[-1] if hist else None, "prev_decoding": _prev_decoding(hist)},
                             f"history {list(hist)} did not finish within {PER_CALL_S * (len(hist) + 2):.0f} s"))
                key = key or digest(repr(("hang", hist)))
                break
            except Exception as ex:
                viol.append(({"symptom": "ending-raises", "ending": ending, "exc": type(ex).__name__}, f"history {list(hist)} ending {ending}: {type(ex).__name__}: {ex}"))
        finally:
            signal.setitimer(signal.ITIMER_REAL, 0)
            if "fobj" in holder:
                holder["fobj"].close()
        after = hashlib.sha256(image_of(holder)).hexdigest()
        if after != before:
            viol.append(({"symptom": "archive-modified", "ending": ending}, f"history {list(hist)} ending {ending}: archive bytes changed"))
        if ending == ENDINGS[0] and hist:
            op = hist[-1]
            if damaged:
                if op == "testzip" and last == ("ok", None):
                    viol.append(({"symptom": "damaged-certified", "op": "testzip", "prev_decoding": _prev_decoding(hist)}, f"history {list(hist)}: testzip() certifies a damaged archive"))
                if op == "test" and last == ("ok", True):
                    viol.append(({"symptom": "damaged-certified", "op": "test", "prev_decoding": _prev_decoding(hist)}, f"history {list(hist)}: test() certifies a damaged archive"))
            elif op == "test" and last not in (("ok", True), ("ok", None)):
                viol.append(({"symptom": "intact-not-certified", "op": "test"}, f"history {list(hist)}: test() on an intact archive -> {_short(last)}"))
            elif op == "testzip" and last != ("ok", None):
                viol.append(({"symptom": "intact-not-certified", "op": "testzip"}, f"history {list(hist)}: testzip() on an intact archive -> {_short(last)}"))
            elif op == "xall_here":
                pass  # (no differential oracle: judged by the archive's digest - it must not be touched - and by what follows)
            elif last != fresh[op]:
                viol.append(({"symptom": "differs-from-fresh", "op": op, "prev_decoding": _prev_decoding(hist), "after_reset": len(hist) > 1 and hist[-2] == "reset"},
                             f"history {list(hist)}: {op} -> {_short(last)} but a freshly opened archive gives {_short(fresh[op])}"))
    return {"hist": list(hist), "key": key or digest(repr(hist)), "violations": viol, "info": {"unknown_attrs": unknown}}


def _prev_decoding(hist):
    return any(o in DECODING for o in hist[:-1])


def _short(r):
    s = repr(r)
    return s if len(s) < 200 else s[:200] + "..."


def worker(task):
    ctx, hists = task
    install_key_cache()
    wd = os.path.join(os.getcwd(), "c12")
    os.makedirs(wd, exist_ok=True)
    out = []
    with seams(chunk=ctx.get("chunk")):
        for h in hists:
            out.append(run_history(ctx, tuple(h), wd))
    return out


def enabled_factory(alphabet):
    def enabled(hist):
        decoded = False
        for op in hist:
            if op == "reset":
                decoded = False
            elif op in DECODING:
                decoded = True
        return [op for op in alphabet if not (decoded and op in EXTRACTING)]

    return enabled


def replay(case):
    archs = build_archives()
    ctx = {"arch_id": case["arch_id"], "arch": archs[case["arch_id"]], "mode": case["mode"], "chunk": case.get("chunk"), "all_endings": True}
    wd = "/dev/shm/c12replay-%d" % os.getpid()
    os.makedirs(wd, exist_ok=True)
    signal.signal(signal.SIGALRM, lambda *a: (_ for _ in ()).throw(SoftTimeout()))
    try:
        with seams(chunk=ctx["chunk"]):
            r = run_history(ctx, tuple(case["hist"]), wd)
        return [(v[0], v[1]) for v in r["violations"]]
    finally:
        shutil.rmtree(wd, ignore_errors=True)


def main(tier="quick", seed=0, only=None):
    chk = Check("C12", "model_checking", MODULE, tier, seed)
    archs = build_archives()
    depth = 4 if tier == "quick" else 7
    configs = []
    for aid in ("A1", "A3", "AZ", "AE"):
        for mode in ("path", "bytesio", "fileobj"):
            configs.append((aid, mode, OPS, depth, None, True))
    for mode in ("path", "bytesio"):
        configs.append(("AN", mode, OPS, min(depth, 4), None, True))
    configs.append(("AB", "path", OPS, min(depth, 5), None, True))
    for mode in ("path", "fileobj"):
        configs.append(("AO", mode, ["getnames", "testzip", "xall_f", "xall_here", "reset"], min(depth, 4), None, True))
    configs.append(("AD", "bytesio", OPS, min(depth, 4), None, True))
    configs.append(("A3", "path", OPS, depth, 8, True))  # small extraction chunk: several decompress() rounds per member
    # soundness cross-check of the state merging: the same language with dedup OFF (every history is its own state)
    configs.append(("A3", "path", OPS, 3 if tier == "quick" else 4, None, False))
    if tier != "quick":
        configs.append(("AE", "bytesio", OPS, 4, None, False))
    dam_ops = ["getnames", "test", "testzip", "xall_f", "reset"]
    for aid in ("D1", "DE", "D3"):
        for mode in ("path", "bytesio"):
            configs.append((aid, mode, dam_ops, depth, None, True))
    states = transitions = replayed = 0
    samples = []
    dedup_disabled = []
    with Pool() as pool:
        for aid, mode, alphabet, d, chunk, dd in configs:
            if only and aid not in only:
                continue
            ctx = {"arch_id": aid, "arch": archs[aid], "mode": mode, "chunk": chunk, "all_endings": True}
            r = bfs.bfs(pool, f"{MODULE}:worker", ctx, enabled_factory(alphabet), d, dedup=dd, chunk=30, soft=1200)
            unknown = sorted({u for x in r["results"] for u in x["info"]["unknown_attrs"]})
            if unknown and dd:
                # an attribute the census does not know: merging states could be unsound -> rerun with state = history
                dedup_disabled.append({"config": [aid, mode], "unknown": unknown})
                r = bfs.bfs(pool, f"{MODULE}:worker", ctx, enabled_factory(alphabet), d, dedup=False, chunk=30, soft=1200)
            states += r["states"]
            transitions += r["transitions"]
            replayed += len(r["results"]) * len(ENDINGS)
            for e in r["errors"]:
                chk.harness_error(f"{aid}/{mode}: {e}")
            chk.evals += len(r["results"])
            for x in r["results"]:
                chk.nontrivial.add(digest((aid, mode, chunk, x["key"])))
                for sig, msg in x["violations"]:
                    s = {"archive": aid[:1] + ("multi" if aid.endswith("3") else "single"), "mode": "path" if mode == "path" else "stream"}
                    s.update(sig)
                    chk.violation(s, f"{aid}/{mode}: {msg}", {"arch_id": aid, "mode": mode, "chunk": chunk, "hist": x["hist"]})
            chk.planes[f"{aid}/{mode}" + (f"/chunk{chunk}" if chunk else "") + ("" if dd else "/dedup-off")] = {"states": r["states"], "transitions": r["transitions"], "merged": r["merged"], "per_depth": r["per_depth"]}
            if len(samples) < 8 and r["results"]:
                samples.append({"config": [aid, mode], "history": r["results"][-1]["hist"]})
    return chk.finish(
        rule=(
            f"BFS over call histories of length <= {depth} in the property's language (extract/extractall after a decoding call only after "
            "reset(); test/testzip anywhere) over 12 calls, on 7 intact archives (1 folder, 3 folders from append sessions, LZMA2 solid "
            "with an empty member, Copy+7zAES, BCJ+LZMA2 and Delta+LZMA2 (depth <= 5 / 4), an archive holding a member named like itself with extraction into its own directory in the alphabet, and a reference-written archive without any stream: depth <= 4) x opened by path / BytesIO / file object (+ one configuration with an 8-byte extraction "
            "chunk), and over {getnames,test,testzip,extractall,reset} on 3 damaged copies. Every history is replayed on a fresh real "
            "SevenZipFile three times (ended by close, by with-exit, by an injected exception). Oracles: last call's result == result on a "
            "freshly opened archive; test() is True/None and testzip() None on intact archives; damaged copies are never certified; SHA-256 of the archive unchanged after each ending; watchdog. "
            "States are deduplicated by a census of all mutable session fields; distinct_nontrivial = distinct canonical states."
        ),
        assumptions=["canonical state = (fp position, per-folder decoder counters and digests, registered outputs, queue size, reporter, "
                     "decode-since-reset flag); an unknown attribute on SevenZipFile/Worker/SevenZipDecompressor disables dedup for that configuration"],
        states=states, transitions=transitions, traces_validated_against_impl=replayed, dedup_disabled=dedup_disabled,
        samples=samples or ["(none)"],
    )
