"""C13 Scheduling independence and error propagation: the thread-parallel extraction path is run under
the controlled scheduler (E2); every interleaving of the workers at visible operations (thread start/
join, archive open, every output open/write, queue put/get) within a preemption bound is executed on the
real code.  A second, finer pass makes every source line of py7zr inside worker threads a scheduling
point (race-detector role).  The process-parallel option is compared with the sequential result under
the OS scheduler (not exhaustive; see DESIGN.md)."""
from __future__ import annotations

import io
import os
import pathlib
import shutil

from mc.core import explore
from mc.core.evidence import Check, Shard, digest
from mc.core.pool import Pool
from mc.core.sched import Deadlock, Scheduler
from mc.gen import chains, content
from mc.lib7z import seams

MODULE = "mc.checks.c13"


# ---------------------------------------------------------------------------------------------
def build_archive(folders, chain="COPY", damage=None):
    """folders: list of member counts per folder (one append session each).  damage: None | (folder, kind)."""
    import py7zr

    bio = io.BytesIO()
    members = []
    spans = []
    for k, n in enumerate(folders):
        bio.seek(0)
        ch = chain if isinstance(chain, str) else chain[k % len(chain)]
        start = len(bio.getvalue())
        with py7zr.SevenZipFile(bio, "w" if k == 0 else "a", filters=chains.py_filters(ch)) as z:
            z.set_encoded_header_mode(False)
            for j in range(n):
                d = content.make("repetitive" if ch != "COPY" else "random", 17 + 3 * j + k, k * 10 + j)
                z.writestr(d, f"f{k}/m{j}.bin")
                members.append((f"f{k}/m{j}.bin", d))
    blob = bytearray(bio.getvalue())
    if damage is not None:
        from mc.ref import ref7z

        r = ref7z.read(bytes(blob), strict=False, decode=False)
        sizes = [f["packsizes"][0] for f in r["folders"]]
        off = 32 + sum(sizes[: damage[0]])
        if damage[1] == "crc":
            blob[off + 2] ^= 0x55
        elif damage[1] == "decoder":
            blob[off] ^= 0xFF
            blob[off + 1] ^= 0xFF
    return bytes(blob), members


class SchedFactory:
    """WriterFactory whose products make every create/write a scheduling point; optionally one name cannot be created."""

    def __init__(self, sched, fail_on=None):
        from py7zr.io import Py7zIO, WriterFactory

        self.sched = sched
        self.fail_on = fail_on
        self.items = []
        outer = self

        class Sink(Py7zIO):
            def __init__(self, name):
                self.name = name
                self.buf = bytearray()

            def write(self, s):
                outer.sched.point("write", self.name)
                self.buf += s
                return len(s)

            def read(self, size=None):
                return b""

            def seek(self, offset, whence=0):
                return 0

            def flush(self):
                pass

            def size(self):
                return len(self.buf)

        class F(WriterFactory):
            def create(self, filename):
                outer.sched.point("create", filename)
                if outer.fail_on is not None and filename == outer.fail_on:
                    raise PermissionError(13, "injected: output cannot be created", filename)
                s = Sink(filename)
                outer.items.append(s)
                return s

        self.factory = F()

    def result(self):
        return sorted((s.name, bytes(s.buf)) for s in self.items)


def execute(spec, choices, wd, line_trace=False):
    """One controlled execution.  -> (chooser, observation dict)"""
    import py7zr
    import py7zr.py7zr as impl

    blob, members = build_archive(spec["folders"], spec.get("chain", "COPY"), spec.get("damage"))
    apath = os.path.join(wd, "sched.7z")
    with open(apath, "wb") as f:
        f.write(blob)
    ch = explore.Chooser(choices)
    sched = Scheduler(ch, line_trace=line_trace)
    real_open = open

    def sched_open(file, mode="r", *a, **k):
        sched.point("archive.open", None)
        return real_open(file, mode, *a, **k)

    obs = {}
    fac = SchedFactory(sched, fail_on=spec.get("fail_on"))
    dest = os.path.join(wd, "out")
    shutil.rmtree(dest, ignore_errors=True)
    orig_path_open = pathlib.PosixPath.open

    def path_open(self, mode="r", *a, **k):
        if "w" in mode and str(self).startswith(dest):
            sched.point("create", os.path.relpath(str(self), dest))
            fh = orig_path_open(self, mode, *a, **k)
            return _FileProxy(fh, sched, os.path.relpath(str(self), dest))
        return orig_path_open(self, mode, *a, **k)

    def one_session(tag):
        z = py7zr.SevenZipFile(apath, "r")
        def live():
            return [p.name for p in sched.parts if p.state not in ("done", "new") and not p.daemon and p is not sched.main and p.name.startswith("T") and not p.name.startswith("caller")]

        try:
            try:
                if spec["sink"] == "factory":
                    z.extractall(factory=fac.factory)
                else:
                    z.extractall(path=dest)
            except BaseException as ex:  # noqa
                # control is back at the caller through an exception: the workers must be finished all the same
                if type(ex).__name__ != "SchedulerAbort":
                    obs.setdefault("live_at_return", []).extend(live())
                raise
            obs.setdefault("live_at_return", []).extend(live())
        finally:
            z.close()

    def body():
        if spec.get("callers", 1) == 1:
            one_session("s")
            return None
        errs = []
        facs = [fac] + [SchedFactory(sched) for _ in range(spec["callers"] - 1)]
        threads = []

        def session(i):
            z = py7zr.SevenZipFile(apath, "r")
            try:
                z.extractall(factory=facs[i].factory)
            except BaseException as ex:  # noqa
                if type(ex).__name__ == "SchedulerAbort":
                    raise
                errs.append(ex)
            finally:
                z.close()

        for i in range(spec["callers"]):
            t = sched.Thread(target=session, args=(i,), name=f"caller{i}")
            threads.append(t)
            t.start()
        for t in threads:
            t.join()
        obs["other_results"] = [f.result() for f in facs[1:]]
        if errs:
            raise errs[0]

    with seams(chunk=spec.get("chunk", 8), py7zr__Thread=sched.Thread, py7zr__queue=sched.queue_module, py7zr__open=sched_open, py7zr__time=sched.time_module):
        pathlib.PosixPath.open = path_open
        try:
            res, exc = sched.run_main(body)
        finally:
            pathlib.PosixPath.open = orig_path_open
            if hasattr(impl, "open"):
                try:
                    del impl.open
                except AttributeError:
                    pass
    obs["exc"] = exc
    obs["deadlock"] = sched.deadlock
    obs["end"] = sched.end_reason
    obs["leaked"] = sched.leaked
    obs["worker_exc"] = [(p.name, type(p.exc).__name__) for p in sched.parts if p.exc is not None]
    obs["points"] = sched.points
    obs["preemptions"] = sched.preemptions
    obs["order"] = digest(repr([(t[0], t[1], t[2]) for t in sched.trace if t[1] in ("write", "create", "q.put")]))
    if spec["sink"] == "factory":
        obs["result"] = fac.result()
    else:
        from mc.lib7z import tree_snapshot

        obs["result"] = sorted((k, v[1]) for k, v in tree_snapshot(dest).items() if v[0] == "file") if os.path.isdir(dest) else []
    obs["expected"] = sorted(members)
    return ch, obs


class _FileProxy:
    def __init__(self, fh, sched, name):
        self.fh, self.sched, self.name = fh, sched, name

    def write(self, b):
        self.sched.point("write", self.name)
        return self.fh.write(b)

    def __enter__(self):
        return self

    def __exit__(self, *a):
        self.fh.close()

    def __getattr__(self, k):
        return getattr(self.fh, k)


def judge(spec, obs):
    out = []
    if obs["deadlock"]:
        out.append(("deadlock", f"no participant can run: {obs['deadlock']}"))
    if obs["end"] == "max_points":
        out.append(("non-termination", "execution exceeded the scheduling-point horizon"))
    if obs["leaked"]:
        out.append(("thread-stuck", f"threads still alive after the execution: {obs['leaked']}"))
    exc = obs["exc"]
    if spec.get("damage") or spec.get("fail_on"):
        want = {"crc": ("CrcError",), "decoder": ("LZMAError", "CrcError", "DecompressionError", "EOFError", "Bad7zFile")}.get((spec.get("damage") or (0, ""))[1], ("PermissionError",))
        if exc is None:
            out.append(("worker-error-lost", f"a worker failed ({obs['worker_exc'] or 'queued'}) but extractall returned normally"))
        elif type(exc).__name__ not in want and not isinstance(exc, Deadlock):
            out.append(("wrong-exception", f"caller saw {type(exc).__name__}: {exc}; expected one of {want}"))
        # members of undamaged folders that were delivered must still be right
        exp = dict(obs["expected"])
        for n, d in obs["result"]:
            if n in exp and d != exp[n] and not _in_failed_folder(spec, n):
                out.append(("output-differs", f"{n} differs from the sequential result"))
    else:
        if exc is not None and not isinstance(exc, Deadlock):
            out.append(("unexpected-exception", f"{type(exc).__name__}: {exc}"))
        elif exc is None and obs["result"] != obs["expected"]:
            got, exp = dict(obs["result"]), dict(obs["expected"])
            bad = [n for n in exp if got.get(n) != exp[n]] + [n for n in got if n not in exp]
            out.append(("output-differs", f"differs from the sequential result in {bad[:4]}"))
        for r in obs.get("other_results", []):
            if r != obs["expected"]:
                out.append(("output-differs", "a concurrent independent session got a different result"))
    if obs.get("live_at_return"):
        out.append(("worker-still-running-at-return", f"extractall returned (or raised) while {obs['live_at_return']} had not finished"))
    if obs["worker_exc"]:
        out.append(("uncaught-in-thread", f"exception escaped a thread: {obs['worker_exc']}"))
    return out


def _in_failed_folder(spec, name):
    if spec.get("damage"):
        return name.startswith(f"f{spec['damage'][0]}/")
    if spec.get("fail_on"):
        return name.split("/")[0] == spec["fail_on"].split("/")[0]
    return False


def specs(tier):
    out = []
    out.append({"id": "2f-3+2-factory", "folders": [3, 2], "sink": "factory", "bound": 2 if tier == "quick" else 3})
    out.append({"id": "2f-1+1-factory-all", "folders": [1, 1], "sink": "factory", "bound": 99, "chunk": 16 if tier != "quick" else 32})
    out.append({"id": "3f-1+2+1-factory", "folders": [1, 2, 1], "sink": "factory", "bound": 1 if tier == "quick" else 2})
    out.append({"id": "2f-2+1-path", "folders": [2, 1], "sink": "path", "bound": 2})
    out.append({"id": "2f-lzma2+copy-factory", "folders": [2, 2], "chain": ["LZMA2", "COPY"], "sink": "factory", "bound": 2})
    if tier != "quick":
        out.append({"id": "4f-1111-factory", "folders": [1, 1, 1, 1], "sink": "factory", "bound": 2})
        out.append({"id": "3f-3+1+2-path", "folders": [3, 1, 2], "sink": "path", "bound": 2})
        out.append({"id": "2f-2+2-factory-all", "folders": [2, 2], "sink": "factory", "bound": 99, "chunk": 64})
    # H2: one folder damaged, at each position, three ways
    nf = 3
    for pos in range(nf):
        for kind in ("crc", "decoder"):
            out.append({"id": f"dam-{kind}-f{pos}", "folders": [1, 2, 1], "chain": "LZMA2" if kind == "decoder" else "COPY", "sink": "factory", "damage": (pos, kind), "bound": 1 if tier == "quick" else 2})
        out.append({"id": f"unwritable-f{pos}", "folders": [1, 2, 1], "sink": "factory", "fail_on": f"f{pos}/m0.bin", "bound": 1 if tier == "quick" else 2})
    # H3: two independent sessions on one file
    # (a single-folder archive is extracted inside the calling thread: the two sessions themselves are the participants)
    out.append({"id": "two-callers", "folders": [2], "sink": "factory", "callers": 2, "bound": 2 if tier == "quick" else 3, "chunk": 16})
    if tier != "quick":
        out.append({"id": "two-callers-multi", "folders": [1, 1], "sink": "factory", "callers": 2, "bound": 0, "chunk": 64, "cap": 40000})
    # line-level pass
    out.append({"id": "lines-2f-1+1", "folders": [1, 1], "sink": "factory", "bound": 1, "chunk": 64, "lines": True})
    if tier != "quick":
        out.append({"id": "lines-dam-crc", "folders": [1, 1], "sink": "factory", "bound": 1, "chunk": 64, "lines": True, "damage": (1, "crc")})
        out.append({"id": "lines-2f-1+1-b2", "folders": [1, 1], "sink": "factory", "bound": 2, "chunk": 64, "lines": True, "cap": 60000})
    return out


def shard(task):
    spec, prefix, bound = task
    sh = Shard()
    wd = os.path.join(os.getcwd(), "c13")
    os.makedirs(wd, exist_ok=True)
    seen_orders = set()
    n = [0]

    def body(ch_in):
        return execute(spec, ch_in.prefix, wd, line_trace=spec.get("lines", False))

    # the explorer drives Chooser objects itself; execute() builds its own from the prefix, so adapt:
    stack = [list(prefix)]
    cap = spec.get("cap")
    while stack:
        p = stack.pop()
        ch, obs = execute(spec, p, wd, line_trace=spec.get("lines", False))
        n[0] += 1
        key = obs["order"]
        sh.case((spec["id"], ch.choices), nontrivial=key not in seen_orders, sample={"spec": spec["id"], "schedule": ch.decoded()[:6], "points": obs["points"]} if len(sh.samples) < 1 and ch.cost() else None)
        seen_orders.add(key)
        sh.note("orders:" + spec["id"], key)
        sh.note("outcomes:" + spec["id"], digest(repr((type(obs["exc"]).__name__ if obs["exc"] else None, obs["result"]))))
        sh.count("points", obs["points"])
        sh.count("transitions", len(ch.trace))
        sh.count(f"preemptions={ch.cost()}")
        for sym, msg in judge(spec, obs):
            sh.violation({"symptom": sym, "harness": spec["id"].split("-f")[0] if spec["id"].startswith(("dam", "unw")) else spec["id"], "mode": "thread"},
                         f"{spec['id']} schedule {ch.decoded()[:8]}: {msg}", {"spec": spec, "choices": ch.choices})
        if cap and n[0] >= cap:
            sh.count("capped:" + spec["id"])
            break
        stack.extend(reversed(explore.children(ch, len(p), bound)))
    return sh.result()


def ownership_proof(spec, wd):
    """Replay the default, and a deviating schedule twice; traces and observations must be identical."""
    ch0, o0 = execute(spec, [], wd, line_trace=spec.get("lines", False))
    kids = explore.children(ch0, 0, 1)
    probes = [[]] + ([kids[0], kids[len(kids) // 2], kids[-1]] if kids else [])
    for p in probes:
        a = execute(spec, p, wd, line_trace=spec.get("lines", False))
        b = execute(spec, p, wd, line_trace=spec.get("lines", False))
        if a[0].choices != b[0].choices or a[1]["order"] != b[1]["order"] or a[1]["result"] != b[1]["result"] or a[1]["points"] != b[1]["points"]:
            return f"schedule {p} is not reproducible"
    return None


def mp_plane():
    """Process-parallel option vs sequential result, free-running (OS schedule).  Returns list of (sig, msg)."""
    import py7zr

    from mc.lib7z import Collect

    out = []
    wd = "/dev/shm/c13mp-%d" % os.getpid()
    os.makedirs(wd, exist_ok=True)
    try:
        for damage in (None, (1, "crc")):
            blob, members = build_archive([1, 2, 1], "COPY", damage)
            apath = os.path.join(wd, "mp.7z")
            with open(apath, "wb") as f:
                f.write(blob)
            for sink in ("path", "factory"):
                for rep in range(3):
                    dest = os.path.join(wd, "out")
                    shutil.rmtree(dest, ignore_errors=True)
                    exc = None
                    fac = Collect()
                    try:
                        with py7zr.SevenZipFile(apath, "r", mp=True) as z:
                            if sink == "path":
                                z.extractall(path=dest)
                            else:
                                z.extractall(factory=fac)
                    except Exception as ex:
                        exc = ex
                    if sink == "path":
                        from mc.lib7z import tree_snapshot

                        got = sorted((k, v[1]) for k, v in tree_snapshot(dest).items() if v[0] == "file") if os.path.isdir(dest) else []
                    else:
                        got = sorted(fac.as_list())
                    if damage is None:
                        if exc is not None:
                            out.append(({"symptom": "unexpected-exception", "mode": "process", "sink": sink}, f"mp=True {sink}: {type(exc).__name__}: {exc}"))
                        elif got != sorted(members):
                            out.append(({"symptom": "output-differs", "mode": "process", "sink": sink}, f"mp=True extractall({sink}) delivered {len(got)} of {len(members)} members"))
                    else:
                        if exc is None:
                            out.append(({"symptom": "worker-error-lost", "mode": "process", "sink": sink}, f"mp=True {sink}: folder 1 is damaged but extractall returned normally"))
    finally:
        shutil.rmtree(wd, ignore_errors=True)
    return out


def replay(case):
    wd = "/dev/shm/c13r-%d" % os.getpid()
    os.makedirs(wd, exist_ok=True)
    try:
        if case.get("mp"):
            return [m for _, m in mp_plane()]
        spec = case["spec"]
        if spec.get("damage"):
            spec["damage"] = tuple(spec["damage"])
        ch, obs = execute(spec, case["choices"], wd, line_trace=spec.get("lines", False))
        return judge(spec, obs)
    finally:
        shutil.rmtree(wd, ignore_errors=True)


def main(tier="quick", seed=0, only=None):
    chk = Check("C13", "model_checking", MODULE, tier, seed)
    sp = [s for s in specs(tier) if not only or s["id"] in only]
    wd = "/dev/shm/c13main-%d" % os.getpid()
    os.makedirs(wd, exist_ok=True)
    tasks = []
    for s in sp:
        err = ownership_proof(s, wd)
        if err:
            chk.harness_error(f"{s['id']}: {err}")
            continue
        ch0, _ = execute(s, [], wd, line_trace=s.get("lines", False))
        tasks.append((s, [], 0))
        kids = explore.children(ch0, 0, s["bound"])
        if s.get("cap"):
            kids = kids[:: max(1, len(kids) // 16)][:16]
        tasks += [(s, k, s["bound"]) for k in kids]
    shutil.rmtree(wd, ignore_errors=True)
    import random

    random.Random(seed).shuffle(tasks)
    with Pool() as pool:
        res = pool.map(f"{MODULE}:shard", tasks, soft=3000)
    for t, r in zip(tasks, res):
        chk.merge_pool([r], plane=t[0]["id"])
    for sig, msg in mp_plane():
        chk.violation(sig, msg, {"mp": True})
    chk.evals += 12
    states = chk.counters.get("points", 0)
    transitions = chk.counters.get("transitions", 0)
    return chk.finish(
        rule=(
            "harnesses: archives with 2..4 folders x 1..3 members opened by path (thread-parallel branch), extraction chunk 8 bytes so every "
            "member takes several writes; extractall(factory) and extractall(path); LZMA2+COPY mix; one folder damaged at each position "
            "(CRC-breaking byte, decoder-breaking bytes, output that cannot be created); two independent SevenZipFile sessions on one file "
            "from two controlled caller threads. Scheduling points: thread start/join, archive open, every output create/write, every queue "
            "put/get/empty. All interleavings within the preemption bound per harness (bound 99 = all interleavings) ; plus a line-level pass "
            "(every py7zr source line inside worker threads is a scheduling point, bound 1; thorough bound 2 capped). Before exploring, the "
            "default and three deviating schedules are replayed twice and must give identical traces. Oracle: output equals the sequential "
            "result in every schedule, no deadlock, no worker alive when extractall returns, worker errors reach the caller with the "
            "worker's exception type. distinct_nontrivial = executions whose output-event order differs from every earlier one of the shard. "
            "The process-parallel option is compared with the sequential result under the OS scheduler (12 runs, not exhaustive)."
        ),
        assumptions=["timed waits fire only at quiescence", "codec calls are atomic per call (each codec object belongs to one participant; the line-level pass checks py7zr's own Python state)",
                     "mp=True is not explored exhaustively: forked workers are not under the scheduler"],
        states=max(1, states), transitions=max(1, transitions), traces_validated_against_impl=chk.evals,
        samples=chk.samples or ["(none)"],
    )
