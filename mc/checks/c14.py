"""C14 Crash while writing: record the ordered seek/write/truncate stream of real create and append
sessions on a logging device, then open EVERY byte-prefix image (plus drop-one-of-the-last-2 reorderings)
with py7zr and with the independent reader."""
from __future__ import annotations

import io
import os
import shutil

from mc.checks import c07, c08
from mc.core.device import RecordingFile, crash_images
from mc.core.evidence import Check, Shard, digest
from mc.core.pool import Pool, chunks
from mc.gen import archives, chains
from mc.lib7z import Collect, fixed_random, install_key_cache
from mc.ref import ref7z

MODULE = "mc.checks.c14"

# member lists only C14 uses: large enough that io.BufferedRandom (8 KiB) splits the session into several flushes
BIG = {
    "big": [("writef", "s{n}/big.bin", "random:20000")],
    "big2": [("writestr", "s{n}/a.txt", b"alpha-{n}" * 4), ("writef", "s{n}/big.bin", "random:9000"), ("writestr", "s{n}/z.txt", b"omega-{n}" * 3)],
}


def _members_of(mk):
    if mk in BIG:
        from mc.gen import content

        return [(api, name, content.make(d.split(":")[0], int(d.split(":")[1]), 7) if isinstance(d, str) else d) for api, name, d in BIG[mk]]
    return c07.SESSION_MEMBERS[mk]
ARC = "/nonexistent-dir-for-c14/archive.7z"  # only ever seen by the open() shim


def record_session(base: bytes | None, n, mk, chain, header, password, root, target: str):
    """Run one session on a recording device.  -> (final_bytes, log, appended_model)"""
    import py7zr
    import py7zr.py7zr as impl

    dev = RecordingFile(base or b"", name=ARC)
    filters = chains.py_filters(chain)
    appended = []
    old = os.getcwd()
    os.chdir(root)
    real_open = open
    holder = {}

    def shim(file, mode="r", *a, **k):
        if file == ARC:
            if base is None and "r" in mode and "+" in mode:  # mode 'a' on a missing file falls back to w+b
                raise FileNotFoundError(file)
            if "w" in mode:
                dev.truncate(0)
            holder["buf"] = io.BufferedRandom(dev)
            return holder["buf"]
        return real_open(file, mode, *a, **k)

    try:
        if target == "path":
            impl.open = shim
            tgt = ARC
        else:
            tgt = dev
            dev.seek(0)
        try:
            with fixed_random(f"c14:{n}:{mk}:{chain}:{header}"), py7zr.SevenZipFile(tgt, "w" if base is None else "a", filters=filters, password=password) as z:
                if header == "raw":
                    z.set_encoded_header_mode(False)
                elif header == "encrypted":
                    z.set_encrypted_header(True)
                for api, name, data in _members_of(mk):
                    name = name.replace("{n}", str(n))
                    if api == "writestr":
                        d = data.replace(b"{n}", str(n).encode())
                        z.writestr(d, name)
                        appended.append((name, "file", d))
                    elif api == "writef":
                        z.writef(io.BytesIO(data), name)
                        appended.append((name, "file", data))
                    elif api == "write":
                        z.write(name)
                        appended.append(next(t for t in c07.TREE if t[0] == name))
                    else:
                        z.writeall(name)
                        appended.extend(c07.sorted_tree(name))
        finally:
            if target == "path" and hasattr(impl, "open"):
                try:
                    del impl.open
                except AttributeError:
                    pass
    finally:
        os.chdir(old)
    return dev.getvalue(), dev.log, appended


def logical(blob, password):
    """Member list as both readers see it: ('fail', why) | ('ok', [(name, bytes|None)]) | ('listed', names, why):
    the image opens and lists members, but they cannot be read back."""
    import py7zr

    out = {}
    try:
        r0 = ref7z.read(blob, password=password, strict=False, decode=False)
        names0 = [m["name"] for m in r0["members"]]
        try:
            r = ref7z.read(blob, password=password, strict=False)
            out["ref"] = ("ok", [(m["name"], m["data"] if m["kind"] != "dir" else None) for m in r["members"]])
        except Exception as ex:
            out["ref"] = ("listed", names0, type(ex).__name__)
    except Exception as ex:
        out["ref"] = ("fail", type(ex).__name__)
    try:
        z = py7zr.SevenZipFile(io.BytesIO(blob), password=password)
    except Exception as ex:
        out["py"] = ("fail", type(ex).__name__)
        return out
    try:
        names = z.getnames()
        dirs = {f.filename for f in z.files if f.is_directory}
    except Exception as ex:
        out["py"] = ("fail", type(ex).__name__)
        return out
    try:
        f = Collect()
        z.extractall(factory=f)
        data = dict(f.as_list())
        out["py"] = ("ok", [(n, None if n in dirs else data.get(n)) for n in names])
    except Exception as ex:
        out["py"] = ("listed", names, type(ex).__name__)
    finally:
        try:
            z.close()
        except Exception:
            pass
    return out


def norm(model):
    return [(n, None if k == "dir" else d) for n, k, d in model]


def run_spec(spec, wd):
    """spec = {"sessions": [(mk, chain, header)], "target": ...}: the LAST session is the one that crashes."""
    install_key_cache()
    root = os.path.join(wd, "src")
    if not os.path.isdir(root):
        c07.make_tree(root)
    sessions = spec["sessions"]
    pw = archives.PASSWORD if any(chains.needs_password(c) or h == "encrypted" for _, c, h in sessions) else None
    base = None
    before = []
    if spec.get("ref") is not None:
        # the archive being appended to comes from the reference writer (layouts py7zr never writes itself)
        from mc.checks import c10

        rc = c10.ref_layout_cases()[spec["ref"]]
        base = ref7z.write(rc["members"], rc["layout"], password=rc["password"])
        before = [(m["name"], "dir" if m["kind"] == "dir" else "file", m["data"] or b"") for m in rc["members"]]
        pw = rc["password"] or pw
    for n, (mk, chain, header) in enumerate(sessions[:-1]):
        base, app = c08.session(base, n, mk, chain, header, pw, root)
        before += app
    mk, chain, header = sessions[-1]
    final, log, app = record_session(base, len(sessions) - 1, mk, chain, header, pw, root, spec["target"])
    after = before + app
    ok_states = [norm(after)] + ([norm(before)] if base is not None else [])
    res = {"images": 0, "accepted": 0, "violations": [], "ops": len(log), "bytes": sum(len(o[2]) for o in log)}
    nocrc = {}
    if spec.get("ref") is not None:
        from mc.checks import c10 as _c10

        if _c10.ref_layout_cases()[spec["ref"]]["label"].endswith("-header-nocrc"):
            nocrc = {"base": "packed-header-without-crc"}
    seen = set()
    for label, img in crash_images(base or b"", log, window=2):
        k = digest(img)
        if k in seen:
            continue
        seen.add(k)
        res["images"] += 1
        lg = logical(img, pw)
        for who, got in lg.items():
            st, val = got[0], got[1]
            if st == "listed" and val and label[0] == "drop" and label[2] >= 2:
                # an OLDER block lost while two later ones reached the disk: beyond the property's fault model ("the last
                # buffered block dropped or reordered"); py7zr issues no barrier before the final header rewrite, so such an
                # image lists members whose data never arrived and reading them raises.  Counted, not judged.
                res["beyond_model"] = res.get("beyond_model", 0) + 1
                continue
            if st == "listed" and val:
                # accepted as an archive and lists members, yet they cannot be read back: neither the before- nor the after-state
                res["accepted"] += 1
                res["violations"].append(({"symptom": "torn-image-lists-unreadable-members", "reader": who, "crash": label[0], "mode": "append" if base is not None else "create",
                                           "header": header}, f"{who} opens the image after {label} and lists {val[:4]} but reading the members raises {got[2]}", list(label)))
            if st == "ok":
                res["accepted"] += 1
                if val not in ok_states:
                    what = f"{who} accepts the image after {label} with members {[n for n, _ in val]}" + (
                        " (names right, bytes wrong)" if [n for n, _ in val] in [[n for n, _ in s] for s in ok_states] else "")
                    res["violations"].append((dict({"symptom": "torn-image-accepted", "reader": who, "crash": label[0], "mode": "append" if base is not None else "create",
                                                    "header": header}, **nocrc), what, list(label)))
    if final and logical(final, pw)["py"][:2] != ("ok", norm(after)):
        res["violations"].append(({"symptom": "complete-session-unreadable", "mode": "append" if base is not None else "create"}, "the completed session does not read back as its members", ["complete"]))
    return res


def specs(tier):
    kinds = ["str1", "str2", "zero", "tree", "none", "dir"] if tier == "quick" else list(c07.SESSION_MEMBERS)
    out = []
    for target in ("stream", "path"):
        for mk in kinds:
            if tier == "quick":
                combos = (("COPY", "raw"), ("LZMA2", "encoded"), ("LZMA2+AES", "encrypted"))
            else:
                # every decoder family (with and without AES) under every header mode it admits
                combos = tuple((c, h) for c in chains.FAMILIES + chains.FAMILIES_AES if "DEFLATE64" not in c
                               for h in ("raw", "encoded") + (("encrypted",) if "AES" in c else ()))
            for c, h in combos:
                out.append({"sessions": [(mk, c, h)], "target": target})
        firsts = ["str1", "tree", "none"] if tier == "quick" else ["str1", "str2", "tree", "none", "dir", "zero"]
        for a in firsts:
            for b in kinds:
                for (c1, h1), (c2, h2) in ((("COPY", "raw"), ("COPY", "raw")), (("LZMA2", "encoded"), ("COPY", "raw")), (("COPY", "raw"), ("LZMA2", "encoded"))):
                    out.append({"sessions": [(a, c1, h1), (b, c2, h2)], "target": target})
        # sessions large enough to be split into several buffer flushes
        for mk in ("big", "big2") if tier != "quick" else ("big2",):
            for c, h in (("COPY", "raw"), ("LZMA2", "encoded")) if tier != "quick" else (("COPY", "raw"),):
                out.append({"sessions": [(mk, c, h)], "target": target})
                out.append({"sessions": [("str1", "COPY", "raw"), (mk, c, h)], "target": target})
        # appends to reference-written archives (folder CRCs, packed CRCs, gaps, dummy padding, packed headers, AES ...)
        from mc.checks import c10

        nref = len(c10.ref_layout_cases())
        for r in range(nref) if tier != "quick" else (1, 3, 6, 7, 8, 9, 22):
            if c10.ref_layout_cases()[r]["label"] == "empty":
                continue
            for mk in ("str1", "none", "tree") if tier != "quick" else ("str1",):
                out.append({"sessions": [(mk, "COPY", "raw")], "target": target, "ref": r})
                if tier != "quick":
                    out.append({"sessions": [(mk, "LZMA2", "encoded")], "target": target, "ref": r})
        # appends onto archives whose packed header carries no CRC: the new data lands where the old header was, and
        # nothing but that header's own decoding stands between a torn image and acceptance
        for r in range(nref):
            if c10.ref_layout_cases()[r]["label"].endswith("-header-nocrc"):
                for mk in ("hdrlike", "tiny", "str1"):
                    for c, h in (("COPY", "raw"), ("LZMA2", "encoded"), ("X86+LZMA2", "encoded")):
                        out.append({"sessions": [(mk, c, h)], "target": target, "ref": r})
        # the same contents appended onto py7zr's own packed headers: only the CRC py7zr puts on the packed header stands
        # between such a torn image and acceptance (seeded change C14g stopped writing it)
        for a in ("str1", "tree"):
            for mk in ("hdrlike", "tiny"):
                for c, h in (("COPY", "raw"), ("LZMA2", "encoded")):
                    out.append({"sessions": [(a, "LZMA2", "encoded"), (mk, c, h)], "target": target})
        if tier != "quick":
            for a in ("str1", "tree"):
                for b in ("str2", "dir", "zero"):
                    for c in ("str1", "none", "file"):
                        out.append({"sessions": [(a, "COPY", "raw"), (b, "LZMA2", "encoded"), (c, "COPY", "raw")], "target": target})
            out.append({"sessions": [("str2", "LZMA2+AES", "encrypted"), ("str1", "LZMA2+AES", "encrypted")], "target": target})
    return out


def shard(task):
    sh = Shard()
    wd = os.path.join(os.getcwd(), "c14")
    os.makedirs(wd, exist_ok=True)
    for spec in task:
        try:
            r = run_spec(spec, wd)
        except Exception as ex:
            sh.count("session_raised_not_judged")
            sh.note("session_errors", f"{type(ex).__name__}")
            continue
        sh.evals += r["images"]
        sh.nontrivial.add(digest(spec))
        sh.count("images", r["images"])
        sh.count("images_accepted_by_a_reader", r["accepted"])
        sh.count("sessions")
        sh.count("ops", r["ops"])
        sh.count("deeper_reorder_images_listing_undelivered_data_not_judged", r.get("beyond_model", 0))
        if len(sh.samples) < 2:
            sh.samples.append({"spec": spec, "ops": r["ops"], "bytes_written": r["bytes"], "images": r["images"], "accepted": r["accepted"]})
        for sig, what, label in r["violations"]:
            sh.violation(sig, f"{spec}: {what}", {"spec": spec, "label": label})
    return sh.result()


def replay(case):
    wd = "/dev/shm/c14r-%d" % os.getpid()
    os.makedirs(wd, exist_ok=True)
    try:
        spec = {"sessions": [tuple(s) for s in case["spec"]["sessions"]], "target": case["spec"]["target"], "ref": case["spec"].get("ref")}
        r = run_spec(spec, wd)
        return [(v[0], v[1]) for v in r["violations"]]
    finally:
        shutil.rmtree(wd, ignore_errors=True)


def main(tier="quick", seed=0, only=None):
    chk = Check("C14", "fault_enumeration", MODULE, tier, seed)
    sp = specs(tier)
    with Pool() as pool:
        res = pool.map(f"{MODULE}:shard", chunks(sp, 2), soft=3000)
    chk.merge_pool(res)
    # distinct_nontrivial counts sessions; images are the evaluations
    return chk.finish(
        rule=(
            f"{len(sp)} sessions (create, and append after 1..2 earlier sessions; member kinds none/writestr/writestr+writef/zero-length/"
            "writeall tree/directory/members of 9-20 KB that split the session into several buffer flushes; appends to reference-written archives with layouts py7zr never writes; chains COPY, LZMA2, LZMA2+AES (thorough: every decoder family with and without AES under every header mode); header raw/encoded/encrypted; target = caller stream (each write call "
            "of py7zr is one op) and path (ops are the flushes of the real io.BufferedRandom)). For each: EVERY byte prefix of the recorded "
            "write/truncate stream, plus every image in which one of the two most recent completed ops never reached the disk. Every image "
            "is opened by py7zr (names + extractall) and by ref7z; an image that opens must show the complete member list of the session "
            "(append: of the state before or after) AND its members must read back - an image that opens, lists members and then fails to deliver them is neither state. evaluations = distinct images; distinct_nontrivial = sessions."
        ),
        assumptions=["py7zr never calls fsync, so every op is unsynced; reordering as the property bounds it: the last block missing (= a prefix) or the last block on disk without its predecessor; images in which the block two before the last is missing are explored too but judged only for delivering wrong contents",
                     "the crashing session is the last one of the history"],
        exhaustive=True,
    )
