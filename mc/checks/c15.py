"""C15 A failed write call does not poison the archive: choice-tree exploration (E1) of write histories
with exactly one injected fault: which call fails, which filesystem answer of that call carries the
error, which errno, how many good calls follow, how the session is closed."""
from __future__ import annotations

import errno
import io
import os
import pathlib
import shutil

from mc.core import explore
from mc.core.evidence import Check, Shard
from mc.core.pool import Pool
from mc.lib7z import seams, Collect
from mc.ref import ref7z

MODULE = "mc.checks.c15"

PLAN = {"active": False, "countdown": None, "errno": None, "fired": None, "opens": [], "answers": 0}


def _answer(what, path):
    if PLAN["active"]:
        PLAN["answers"] += 1
        if PLAN["countdown"] is not None:
            PLAN["countdown"] -= 1
            if PLAN["countdown"] == 0:
                PLAN["fired"] = (what, str(path))
                raise OSError(PLAN["errno"], os.strerror(PLAN["errno"]), str(path))


class FaultyFile:
    """File object whose reads are filesystem answers too."""

    def __init__(self, fh, path):
        self.fh = fh
        self.path = path

    def read(self, n=-1):
        _answer("read", self.path)
        return self.fh.read(n)

    def close(self):
        self.fh.close()

    def __enter__(self):
        return self

    def __exit__(self, *a):
        self.fh.close()

    def __getattr__(self, k):
        return getattr(self.fh, k)


class FP(pathlib.PosixPath):
    """A path whose every filesystem answer can be turned into an OSError by the plan."""

    def lstat(self):
        _answer("lstat", self)
        return super().lstat()

    def stat(self, *a, **k):
        _answer("stat", self)
        return super().stat(*a, **k)

    def is_symlink(self):
        _answer("is_symlink", self)
        return super().is_symlink()

    def is_dir(self):
        _answer("is_dir", self)
        return super().is_dir()

    def is_file(self):
        _answer("is_file", self)
        return super().is_file()

    def exists(self):
        _answer("exists", self)
        return super().exists()

    def open(self, mode="r", *a, **k):
        PLAN["opens"].append(str(self))
        _answer("open", self)
        return FaultyFile(super().open(mode, *a, **k), self)


class FaultyBIO(io.BufferedIOBase):
    def __init__(self, data: bytes, consume: int = 0):
        self.b = io.BytesIO(data)
        self.consume = consume  # bytes the failing read takes from the source before it raises (a buffered reader over a flaky device)

    def read(self, n=-1):
        try:
            _answer("bio.read", "<stream>")
        except OSError:
            self.b.read(self.consume)
            raise
        return self.b.read(n)

    def seek(self, *a):
        _answer("bio.seek", "<stream>")
        return self.b.seek(*a)

    def tell(self):
        _answer("bio.tell", "<stream>")
        return self.b.tell()

    def readable(self):
        return True

    def seekable(self):
        return True


TREE = {"g.txt": b"good-source-bytes-" * 3, "big.bin": bytes(range(256)) * 3, "sub/a": b"aaa", "sub/b": b"bb" * 40, "sub/deep/c": b"c",
        "good/a": b"aaa", "good/b": b"bb" * 40, "good/deep/c": b"c"}


def make_tree(root):
    shutil.rmtree(root, ignore_errors=True)
    for rel, data in TREE.items():
        p = os.path.join(root, rel)
        os.makedirs(os.path.dirname(p), exist_ok=True)
        with open(p, "wb") as f:
            f.write(data)


GOOD = ["writestr", "writef", "write", "writeall", "writedir"]  # writedir: write() of a directory (one entry without data)
FAULTY = ["write:missing", "write:answer", "writeall:answer", "writestr:badname", "writef:badname", "writef:answer", "write:badtype", "writef:consuming:answer", "writef:pastend"]
BADNAMES = ["../evil", "/abs/evil", "a/../../evil"]
ERRNOS = [errno.EACCES, errno.EIO, errno.ENOENT]


def do_good(z, kind, i, root, model):
    if kind == "writestr":
        d = b"str-%d-" % i * 5
        z.writestr(d, f"s{i}.txt")
        model.append((f"s{i}.txt", d))
    elif kind == "writef":
        d = b"f-%d-" % i * 9
        z.writef(io.BytesIO(d), f"f{i}.bin")
        model.append((f"f{i}.bin", d))
    elif kind == "write":
        z.write(FP(os.path.join(root, "g.txt")), f"w{i}/g.txt")
        model.append((f"w{i}/g.txt", TREE["g.txt"]))
    elif kind == "writedir":
        z.write(FP(os.path.join(root, "good", "deep")), f"d{i}")
        model.append((f"d{i}", None))
    else:
        z.writeall(FP(os.path.join(root, "good")), f"all{i}")  # a different source than the one the faulty call names
        model.append((f"all{i}", None))
        for rel in ("a", "b", "deep", "deep/c"):
            model.append((f"all{i}/{rel}", TREE.get("sub/" + rel)))


def body(ch: explore.Chooser, wd: str):
    # a 256-byte I/O block: the 768-byte file and the 360-byte stream are read in several pieces, so that a read fault
    # can fall after some of the member has already been compressed ("midway")
    with seams(block=256):
        return _body(ch, wd)


def _body(ch: explore.Chooser, wd: str):
    """One history.  Choice points: #calls before the fault, their kinds, the faulty call, answer index, errno, #calls after, closing."""
    import py7zr

    root = os.path.join(wd, "src")
    if not os.path.isdir(root):
        make_tree(root)
    before = ch.choose(3, "calls-before", cost=1)
    kinds_before = [ch.pick(GOOD, f"before[{i}]") for i in range(before)]
    fkind = ch.pick(FAULTY, "faulty-call")
    answer = None
    err = None
    badname = None
    if fkind.endswith(":answer"):
        answer = 1 + ch.choose(14, "answer-index", cost=0)   # every position is explored: not a deviation
        err = ch.pick(ERRNOS, "errno")
    elif fkind.endswith(":badname"):
        badname = ch.pick(BADNAMES, "badname")
    after = ch.choose(3, "calls-after", cost=1)
    kinds_after = [ch.pick(GOOD, f"after[{i}]") for i in range(after)]
    closing = ch.pick(["with", "close"], "closing")

    PLAN.update(active=False, countdown=None, errno=None, fired=None, opens=[], answers=0)
    model = []
    obs = {"raised": None, "fired": None, "later_raised": None, "answers": 0}
    bio = io.BytesIO()
    z = py7zr.SevenZipFile(bio, "w", filters=[{"id": py7zr.FILTER_COPY}])
    z.set_encoded_header_mode(False)
    failed_source = None
    partial_prefix = None
    try:
        i = 0
        for k in kinds_before:
            do_good(z, k, i, root, model)
            i += 1
        opens_before = len(PLAN["opens"])
        PLAN.update(active=True, countdown=answer, errno=err)
        try:
            if fkind == "write:missing":
                failed_source = os.path.join(root, "does-not-exist")
                z.write(FP(failed_source), "missing")
            elif fkind == "write:badtype":
                z.write(12345)
            elif fkind == "write:answer":
                failed_source = os.path.join(root, "big.bin")
                z.write(FP(failed_source), "faulty/big.bin")
            elif fkind == "writeall:answer":
                failed_source = os.path.join(root, "sub")
                partial_prefix = "faultyall"
                z.writeall(FP(failed_source), "faultyall")
            elif fkind == "writestr:badname":
                z.writestr(b"never", badname)
            elif fkind == "writef:badname":
                z.writef(io.BytesIO(b"never"), badname)
            elif fkind == "writef:answer":
                z.writef(FaultyBIO(b"stream-data-" * 30), "faulty/stream.bin")
            elif fkind == "writef:pastend":
                # a file object positioned beyond its end: nothing can be read from it, its remaining size is negative
                src = FaultyBIO(b"stream-data-" * 30)
                src.b.seek(5000)
                z.writef(src, "faulty/pastend.bin")
            elif fkind == "writef:consuming:answer":
                z.writef(FaultyBIO(b"stream-data-" * 30, consume=7), "faulty/stream.bin")
        except Exception as ex:
            obs["raised"] = type(ex).__name__
        finally:
            obs["answers"] = PLAN["answers"]
            obs["fired"] = PLAN["fired"]
            PLAN.update(active=False, countdown=None)
        fault_happened = obs["raised"] is not None
        swallowed = not fault_happened and PLAN["fired"] is not None
        if swallowed:
            # pathlib turned the injected error into an answer ("does not exist"): the call did not fail, nothing to judge about it
            partial_prefix = {"write:answer": "faulty", "writeall:answer": "faultyall", "writef:answer": "faulty", "writef:consuming:answer": "faulty"}.get(fkind)
        elif not fault_happened:
            # the answer index lies beyond the answers this call asks for: the call simply succeeded
            if fkind == "write:answer":
                model.append(("faulty/big.bin", TREE["big.bin"]))
            elif fkind == "writeall:answer":
                model.append(("faultyall", None))
                for rel in ("a", "b", "deep", "deep/c"):
                    model.append((f"faultyall/{rel}", TREE.get("sub/" + rel)))
            elif fkind in ("writef:answer", "writef:consuming:answer"):
                model.append(("faulty/stream.bin", b"stream-data-" * 30))
        opens_at_fault = list(PLAN["opens"])
        for k in kinds_after:
            try:
                do_good(z, k, i, root, model)
            except Exception as ex:
                obs["later_raised"] = f"{k}: {type(ex).__name__}: {ex}"
                break
            i += 1
        reopened = [p for p in PLAN["opens"][len(opens_at_fault):] if failed_source and p.startswith(failed_source) and fault_happened and obs["fired"] and obs["fired"][0] in ("open", "lstat", "is_symlink", "is_dir", "is_file", "exists", "stat")]
        obs["reopened"] = reopened
        try:
            if closing == "with":
                with z:
                    pass
            else:
                z.close()
        except Exception as ex:
            obs["close_raised"] = f"{type(ex).__name__}: {ex}"
    finally:
        PLAN.update(active=False, countdown=None)
    obs["blob"] = bio.getvalue()
    midread = bool(obs["fired"] and obs["fired"][0] in ("read", "bio.read"))
    return {"model": model, "obs": obs, "fkind": fkind, "midread": midread, "fault_happened": fault_happened, "partial_prefix": partial_prefix, "swallowed": swallowed,
            "case": {"before": kinds_before, "faulty": fkind, "answer": answer, "errno": err, "badname": badname, "after": kinds_after, "closing": closing}}


def judge(res):
    out = []
    obs, model = res["obs"], res["model"]
    fk = res["fkind"]
    must_raise = fk in ("write:missing", "write:badtype", "writestr:badname", "writef:badname", "writef:pastend")
    if must_raise and obs["raised"] is None:
        out.append(("fault-not-reported", f"{fk} did not raise"))
    if fk.endswith(":badname") and obs["raised"] not in (None, "ValueError"):
        out.append(("wrong-exception", f"{fk} raised {obs['raised']} instead of ValueError"))
    if not res["fault_happened"] and not must_raise:
        pass
    import py7zr

    blob = obs["blob"]
    readers = {}
    try:
        with py7zr.SevenZipFile(io.BytesIO(blob)) as z:
            names = z.getnames()
            dirs = {f.filename for f in z.files if f.is_directory}
            f = Collect()
            z.extractall(factory=f)
            data = dict(f.as_list())
            readers["py7zr"] = [(n, None if n in dirs else data.get(n)) for n in names]
    except Exception as ex:
        readers["py7zr"] = f"{type(ex).__name__}: {ex}"
    try:
        r = ref7z.read(blob, strict=False)
        readers["ref7z"] = [(m["name"], None if m["kind"] == "dir" else (m["data"] or b"")) for m in r["members"]]
    except Exception as ex:
        readers["ref7z"] = f"{type(ex).__name__}: {ex}"
    for who, got in readers.items():
        if res["midread"]:
            # weaker clause: never opens successfully with wrong contents
            if isinstance(got, str):
                continue
            want = dict(model)
            for n, d in got:
                if n in want:
                    if want[n] != d:
                        out.append(("wrong-contents-after-midread-fault", f"{who}: {n!r} has different bytes"))
                elif d is not None and not _is_prefix_member(n, res):
                    out.append(("wrong-contents-after-midread-fault", f"{who}: unexpected member {n!r}"))
                elif d is not None and _faulty_bytes(n) is not None and d != _faulty_bytes(n):
                    out.append(("wrong-contents-after-midread-fault", f"{who}: the member whose source failed midway is present with {len(d)} bytes of {len(_faulty_bytes(n))}"))
            continue
        if isinstance(got, str):
            out.append(("archive-unreadable-after-failed-call", f"{who}: {got}"))
            continue
        # open/argument fault (or no fault): exactly the members of the successful calls; for a failed writeall the
        # entries it completed before the fault may be present (with right bytes), the failing one must not be
        want = list(model)
        extra = [(n, d) for n, d in got if (n, d) not in want]
        missing = [(n, d) for n, d in want if (n, d) not in got]
        tolerated = []
        if res["partial_prefix"] and (res["fault_happened"] or res["swallowed"]):
            for n, d in list(extra):
                if n == res["partial_prefix"] or n.startswith(res["partial_prefix"] + "/"):
                    rel = n[len(res["partial_prefix"]) + 1:]
                    okd = TREE.get("sub/" + rel) if rel else None
                    if n == "faulty/big.bin":
                        okd = TREE["big.bin"]
                    if d == okd or (d is None):
                        tolerated.append((n, d))
            extra = [e for e in extra if e not in tolerated]
        if missing:
            out.append(("successful-member-lost", f"{who}: missing {[n for n, _ in missing]}"))
        if extra:
            out.append(("failed-call-left-a-member", f"{who}: unexpected {[n for n, _ in extra]}"))
        if not missing and not extra and [x for x in got if x not in tolerated] != want:
            out.append(("order-changed", f"{who}: {[n for n, _ in got]}"))
    if obs.get("reopened"):
        out.append(("failed-source-reopened", f"the source that failed was opened again behind the caller's back: {obs['reopened'][:2]}"))
    if obs.get("later_raised") and not res["midread"]:
        out.append(("later-call-raises", f"a good call after the failed one raised: {obs['later_raised']}"))
    if obs.get("close_raised") and not res["midread"]:
        out.append(("close-raises", obs["close_raised"]))
    return out


def _is_prefix_member(n, res):
    return n in ("faulty/big.bin", "faulty/stream.bin") or n == "faultyall" or n.startswith("faultyall/")


def _faulty_bytes(n):
    if n == "faulty/big.bin":
        return TREE["big.bin"]
    if n == "faulty/stream.bin":
        return b"stream-data-" * 30
    if n.startswith("faultyall/"):
        return TREE.get("sub/" + n[len("faultyall/"):])
    return None


def shard(task):
    prefix, bound = task
    sh = Shard()
    wd = os.path.join(os.getcwd(), "c15")
    os.makedirs(wd, exist_ok=True)

    def on_exec(ch, res):
        case = res["case"]
        sh.case(case, nontrivial=res["fault_happened"], sample={"choices": ch.decoded(), "fired": res["obs"]["fired"], "raised": res["obs"]["raised"]} if len(sh.samples) < 2 and res["fault_happened"] else None)
        sh.count("fault_fired" if res["fault_happened"] else "no_fault(answer index beyond the call)")
        if res["obs"]["fired"]:
            sh.note("fired_answers", res["obs"]["fired"][0])
        for sym, msg in judge(res):
            fired = res["obs"]["fired"][0] if res["obs"]["fired"] else None
            sh.violation({"symptom": sym, "faulty": case["faulty"], "answer": fired, "after": len(case["after"]) > 0}, f"{case}: {msg}", {"choices": ch.choices})

    explore.explore(lambda ch: body(ch, wd), bound, on_exec, prefix=prefix)
    return sh.result()


def replay(case):
    wd = "/dev/shm/c15r-%d" % os.getpid()
    os.makedirs(wd, exist_ok=True)
    try:
        ch, res = explore.replay(lambda c: body(c, wd), case["choices"])
        return judge(res)
    finally:
        shutil.rmtree(wd, ignore_errors=True)


def main(tier="quick", seed=0, only=None):
    chk = Check("C15", "fault_enumeration", MODULE, tier, seed)
    bound = 3 if tier == "quick" else 5
    wd = "/dev/shm/c15probe-%d" % os.getpid()
    os.makedirs(wd, exist_ok=True)
    probe = explore.Chooser([])
    body(probe, wd)
    shutil.rmtree(wd, ignore_errors=True)
    tasks = [([], 0)] + [(c, bound) for c in explore.children(probe, 0, bound)]
    # second level sharding for the big subtrees (faulty-call alternatives)
    with Pool() as pool:
        res = pool.map(f"{MODULE}:shard", tasks, soft=3000)
    chk.merge_pool(res)
    return chk.finish(
        rule=(
            f"choice tree: 0..2 good calls before (each of writestr/writef/write/writeall), the faulty call (write of a missing source, write with a "
            "wrong argument type, write/writeall/writef whose k-th filesystem answer - lstat, is_symlink, is_dir, is_file, exists, open, "
            "read#1.. / tell, seek, read - raises EACCES/EIO/ENOENT for EVERY k in 1..14, writestr/writef with a rejected name), 0..2 good "
            f"calls after, closed by with/close(); all executions within {bound} deviations of the default (answer index is free). Oracle: the "
            "exception reaches the caller; for open/argument faults both readers see exactly the members of the successful calls, later "
            "calls and close() succeed, and the failed source is not opened again; for mid-read faults no reader accepts wrong contents. "
            "Non-trivial = the injected fault actually fired."
        ),
        assumptions=["sources are pathlib.PosixPath subclasses / BufferedIOBase wrappers; COPY filter, raw header (the code under test is the registration logic, not the codecs)"],
        exhaustive=False, deviation_bound=bound,
    )
