"""C16 Member names are kept relative on write: full product over a 6-symbol component alphabet."""
from __future__ import annotations

import io
import itertools
import os
import re
import shutil

from mc.core.evidence import Check, Shard
from mc.core.pool import Pool

MODULE = "mc.checks.c16"
ALPHABET = ["a", "b", "..", ".", "", "c:"]
# the gate decides by joining the name to a fixed probe directory and testing containment: names that mention the probe
# directory's own components can leave the root and come back in (the property text names this boundary case)
PROBE_ALPHABET = ["..", "a", "dafj08sajfa", "a90sufoiasj09", ".", ""]  # ("": empty components, i.e. doubled separators - seeded change C16g)
PREFIXES = ["", "/", "//"]
SUFFIXES = ["", "/"]


def resolve(name: str):
    """Independent definition: lexical resolution against a virtual root.
    -> (absolute?, escapes?, resolved component list)"""
    absolute = name.startswith("/")
    stack = []
    escapes = False
    for comp in name.split("/"):
        if comp in ("", "."):
            continue
        if comp == "..":
            if not stack:
                escapes = True
                break
            stack.pop()
        else:
            stack.append(comp)
    return absolute, escapes, stack


# names that cannot be stored at all: the format's names are UTF-16, a lone surrogate (what Python makes of a file name that
# is not valid UTF-8) has no encoding.  Such a name has to be refused when it is offered, not when the header is written
UNSTORABLE = ["a\udc80b", "\ud800", "d/\udfffx", "caf\udce9.txt"]


def _storable(name: str) -> bool:
    try:
        name.encode("utf-16-le")
        return True
    except UnicodeEncodeError:
        return False


def expected_reject(name: str) -> bool:
    if not _storable(name):
        return True
    return _expected_reject_lexical(name)


def _expected_reject_lexical(name: str) -> bool:
    a, e, _ = resolve(name)
    return a or e


def all_names(maxcomp: int):
    for n in range(1, maxcomp + 1):
        for comps in itertools.product(ALPHABET, repeat=n):
            body = "/".join(comps)
            for pre in PREFIXES:
                for suf in SUFFIXES:
                    s = pre + body + suf
                    if s:
                        yield s


def probe_names(maxcomp: int):
    for n in range(1, maxcomp + 1):
        for comps in itertools.product(PROBE_ALPHABET, repeat=n):
            if not any(c in ("dafj08sajfa", "a90sufoiasj09") for c in comps):
                continue  # covered by the main alphabet
            body = "/".join(comps)
            for pre in ("", "/"):
                for suf in SUFFIXES:
                    yield pre + body + suf


def case_lexical(name: str):
    from py7zr.helpers import check_archive_path

    out = []
    try:
        ok = check_archive_path(name)
    except Exception as ex:
        return [("gate-exception", f"check_archive_path({name!r}) raised {type(ex).__name__}: {ex}")]
    if ok and expected_reject(name):
        out.append(("accepted-escaping", f"{name!r} is absolute or climbs above the root but the gate accepts it"))
    if not ok and not expected_reject(name):
        out.append(("rejected-inside", f"{name!r} stays inside the root but the gate rejects it"))
    return out


def case_write(name: str, api: str):
    import py7zr

    out = []
    bio = io.BytesIO()
    raised = None
    try:
        z = py7zr.SevenZipFile(bio, "w", filters=[{"id": py7zr.FILTER_COPY}])
        z.set_encoded_header_mode(False)
        z.writestr(b"first", "ok1")
        try:
            if api == "writestr":
                z.writestr(b"payload-" + name.encode("utf-8", "replace"), name)
            else:
                z.writef(io.BytesIO(b"payload-" + name.encode("utf-8", "replace")), name)
        except ValueError as ex:
            raised = ex
        z.writestr(b"last", "ok2")
        z.close()
        with py7zr.SevenZipFile(io.BytesIO(bio.getvalue())) as r:
            names = r.getnames()
            from mc.lib7z import Collect

            f = Collect()
            r.extractall(factory=f)
            got = f.as_list()
    except Exception as ex:
        return [("exception", f"{api}({name!r}): {type(ex).__name__}: {ex}")]
    rej = expected_reject(name)
    if rej and raised is None:
        out.append(("accepted-escaping", f"{api}({name!r}) did not raise ValueError"))
    if not rej and raised is not None:
        out.append(("rejected-inside", f"{api}({name!r}) raised {raised}"))
    if raised is not None:
        if names != ["ok1", "ok2"]:
            out.append(("rejected-but-changed", f"{api}({name!r}) raised but the archive lists {names}"))
    else:
        if len(names) != 3 or names[0] != "ok1" or names[2] != "ok2":
            out.append(("accepted-but-wrong-list", f"{api}({name!r}): archive lists {names}"))
        else:
            listed = names[1]
            if listed.startswith("/"):  # on POSIX 'c:/a' is a relative name (C01 allows drive-like components)
                out.append(("absolute-listed", f"{api}({name!r}) listed as {listed!r}"))
            if not rej and resolve(listed)[2] != resolve(name)[2]:
                out.append(("listed-differs", f"{api}({name!r}) listed as {listed!r}"))
    for n in names:
        if n.startswith("/"):
            out.append(("absolute-listed", f"{api}({name!r}) archive lists {n!r}"))
    want = dict([("ok1", b"first"), ("ok2", b"last")])
    gm = {k: v for k, v in got}
    for k, v in want.items():
        if gm.get(k) != v:
            out.append(("neighbour-damaged", f"{api}({name!r}): member {k} reads {gm.get(k)!r}"))
    return out


def make_tree(root: str):
    shutil.rmtree(root, ignore_errors=True)
    os.makedirs(os.path.join(root, "tree", "a", "b"))
    os.makedirs(os.path.join(root, "tree", "c:"))
    os.makedirs(os.path.join(root, "tree", "empty"))
    for rel, data in (("tree/a/b/f.txt", b"f"), ("tree/g.txt", b"g"), ("tree/c:/x", b"x"), ("tree/c:y", b"y"), ("tree/a/h", b"")):
        with open(os.path.join(root, rel), "wb") as f:
            f.write(data)
    os.symlink("g.txt", os.path.join(root, "tree", "lnk"))


def source_spellings(root: str):
    """(api, cwd-relative-to-root, source spelling) — every absolute/relative way of naming sources in the tree."""
    absroot = os.path.abspath(root)
    files = ["tree/a/b/f.txt", "tree/g.txt", "tree/c:/x", "tree/c:y", "tree/a/h", "tree/lnk"]
    dirs = ["tree", "tree/a", "tree/a/b", "tree/c:", "tree/empty"]
    out = []
    for rel in files + dirs:
        api = "write" if rel in files else "writeall"
        apis = [api] if api == "writeall" else ["write", "writeall"]
        for a in apis:
            out.append((a, ".", os.path.join(absroot, rel)))
            out.append((a, ".", "/" + os.path.join(absroot, rel)))          # //abs
            out.append((a, ".", os.path.join(absroot, rel).replace("/", "//")))
            out.append((a, ".", rel))
            out.append((a, ".", "./" + rel))
            out.append((a, ".", rel.replace("/", "//")))
            out.append((a, "tree", rel[len("tree/"):] if rel != "tree" else "."))
            if rel.startswith("tree/c:"):
                out.append((a, "tree", rel[len("tree/"):]))
            out.append((a, ".", os.path.join(absroot, "tree", "..", rel)))
            if a == "writeall" and rel in dirs:
                out.append((a, ".", rel + "/"))
                out.append((a, ".", os.path.join(absroot, rel) + "/"))
    return out


def case_source(root: str, api: str, cwd: str, src: str, as_path: bool):
    import pathlib

    import py7zr

    out = []
    old = os.getcwd()
    os.chdir(os.path.join(root, cwd))
    try:
        bio = io.BytesIO()
        with py7zr.SevenZipFile(bio, "w", filters=[{"id": py7zr.FILTER_COPY}]) as z:
            z.set_encoded_header_mode(False)
            arg = pathlib.Path(src) if as_path else src
            if api == "write":
                z.write(arg)
            else:
                z.writeall(arg)
        with py7zr.SevenZipFile(io.BytesIO(bio.getvalue())) as r:
            names = r.getnames()
    except Exception as ex:
        return [("exception", f"{api}({src!r}) cwd={cwd}: {type(ex).__name__}: {ex}")], []
    finally:
        os.chdir(old)
    if not names:
        out.append(("nothing-stored", f"{api}({src!r}) stored nothing"))
    for n in names:
        if n.startswith("/") or n.startswith("\\") or re.match(r"^[A-Za-z]:[/\\]", n) or os.path.isabs(n):
            out.append(("absolute-listed", f"{api}({src!r}) cwd={cwd} lists {n!r}"))
    return out, names


def shard(task):
    kind, arg = task
    sh = Shard()
    if kind == "lexical":
        first, maxcomp = arg  # all names whose first component index is `first`
        for n in range(1, maxcomp + 1):
            for rest in itertools.product(ALPHABET, repeat=n - 1):
                body = "/".join((ALPHABET[first],) + rest)
                for pre in PREFIXES:
                    for suf in SUFFIXES:
                        name = pre + body + suf
                        if not name:
                            continue
                        r = case_lexical(name)
                        sh.case("L" + name, sample={"name": name, "expected_reject": expected_reject(name)} if len(sh.samples) < 2 and n == 3 else None)
                        sh.count("expected_reject" if expected_reject(name) else "expected_accept")
                        for sym, msg in r:
                            sh.violation({"plane": "gate", "symptom": sym, "absolute": name.startswith("/"), "trailing": name.endswith("/")}, msg,
                                         {"kind": "lexical", "name": name})
    elif kind == "probe":
        for name in arg:
            r = case_lexical(name)
            sh.case("L" + name, sample={"name": name, "expected_reject": expected_reject(name)} if len(sh.samples) < 1 else None)
            sh.count("expected_reject" if expected_reject(name) else "expected_accept")
            for sym, msg in r:
                sh.violation({"plane": "gate-probe-names", "symptom": sym, "absolute": name.startswith("/"), "trailing": name.endswith("/")}, msg, {"kind": "lexical", "name": name})
    elif kind == "write":
        names, api = arg
        for name in names:
            r = case_write(name, api)
            sh.case("W" + api + name, sample={"api": api, "name": name} if len(sh.samples) < 1 else None)
            for sym, msg in r:
                sh.violation({"plane": api, "symptom": sym, "absolute": name.startswith("/")}, msg, {"kind": "write", "name": name, "api": api})
    elif kind == "sources":
        root = os.path.join(os.getcwd(), "c16tree")
        make_tree(root)
        for api, cwd, src in source_spellings(root):
            for as_path in (False, True):
                r, names = case_source(root, api, cwd, src, as_path)
                sh.case(("S", api, cwd, src.replace(root, "<root>"), as_path), nontrivial=bool(names),
                        sample={"api": api, "cwd": cwd, "source": src.replace(root, "<root>"), "listed": names[:3]} if len(sh.samples) < 3 else None)
                for sym, msg in r:
                    sh.violation({"plane": api, "symptom": sym, "source_absolute": src.startswith("/")}, msg.replace(root, "<root>"),
                                 {"kind": "source", "api": api, "cwd": cwd, "src": src.replace(root, "<root>"), "as_path": as_path})
        shutil.rmtree(root, ignore_errors=True)
    return sh.result()


def replay(case):
    if case["kind"] == "lexical":
        return case_lexical(case["name"])
    if case["kind"] == "write":
        return case_write(case["name"], case["api"])
    if case["kind"] == "source":
        import tempfile

        root = tempfile.mkdtemp(prefix="c16", dir="/dev/shm")
        try:
            make_tree(root)
            return case_source(root, case["api"], case["cwd"], case["src"].replace("<root>", root), case["as_path"])[0]
        finally:
            shutil.rmtree(root, ignore_errors=True)
    raise ValueError(case["kind"])


def main(tier="quick", seed=0, only=None):
    chk = Check("C16", "exploration", MODULE, tier, seed)
    maxcomp = 6
    wcomp = 4 if tier == "quick" else 5
    tasks = [("lexical", (i, maxcomp)) for i in range(len(ALPHABET))]
    wnames = list(all_names(wcomp)) + list(probe_names(wcomp)) + UNSTORABLE
    pn = list(probe_names(5 if tier == "quick" else 6))
    tasks += [("probe", pn[i : i + 2000]) for i in range(0, len(pn), 2000)]
    step = 400
    for api in ("writestr", "writef"):
        tasks += [("write", (wnames[i : i + step], api)) for i in range(0, len(wnames), step)]
    tasks.append(("sources", None))
    with Pool() as pool:
        res = pool.map(f"{MODULE}:shard", tasks, soft=900)
    for t, r in zip(tasks, res):
        chk.merge_pool([r], plane=t[0])
    return chk.finish(
        rule=(
            f"every name of 1..{maxcomp} components over {ALPHABET} x prefix {PREFIXES} x suffix {SUFFIXES} through check_archive_path, plus every name of up to 5 (thorough 6) components over {PROBE_ALPHABET} that mentions a component of the gate's internal probe directory; "
            f"every such name of <= {wcomp} components through a real writestr and a real writef session (one member before, one after, "
            "close, reopen, list, extract), and 4 names with a lone surrogate (unstorable: must be refused with ValueError at the call); every absolute/relative/redundant spelling of every file and directory of a scratch tree "
            "through write and writeall (str and pathlib.Path, arcname None). Verdicts compared with an independent lexical definition "
            "(split on '/', resolve '.'/'..' against a virtual root; reject iff absolute or depth < 0). Distinct by name/spelling; "
            "non-trivial = reached the verdict comparison (for sources: at least one member stored)."
        ),
        assumptions=["POSIX semantics: 'c:' is an ordinary component; Windows branches are unreachable here"],
        exhaustive=True,
    )
