"""C17 Header value ranges: exhaustive enumeration of NUMBER encodings/values, boolean vectors, names,
fixed-width scalars, and single-field deviations of whole headers (raw and encoded), each checked by
identity through py7zr's own primitives and against the independent codec in ref7z."""
from __future__ import annotations

import io
import itertools
import random
import struct

from mc.core.evidence import Check, Shard
from mc.core.pool import Pool
from mc.ref import ref7z

MODULE = "mc.checks.c17"
SENTINEL = b"\xa5\x5a\xc3"  # follows every encoding handed to a reader: consuming too much or too little is visible


def _ai():
    import py7zr.archiveinfo as ai

    return ai


# ---------------------------------------------------------------------------------------------
# single-case oracles (also used by replay)
# ---------------------------------------------------------------------------------------------
def case_number_value(v: int):
    ai = _ai()
    out = []
    try:
        f = io.BytesIO()
        ai.write_uint64(f, v)
        b = f.getvalue()
        if not 1 <= len(b) <= 9:
            out.append(("len", f"{len(b)} bytes"))
        r = io.BytesIO(b + SENTINEL)
        back = ai.read_uint64(r)
        if back != v or r.tell() != len(b):
            out.append(("write->read", f"wrote {b.hex()} read {back} consumed {r.tell()}"))
        rv, rp = ref7z.dec_number(b, 0)
        if rv != v or rp != len(b):
            out.append(("write->ref", f"wrote {b.hex()} reference decodes {rv} consuming {rp}"))
        e = ref7z.enc_number(v)
        r = io.BytesIO(e + SENTINEL)
        back = ai.read_uint64(r)
        if back != v or r.tell() != len(e):
            out.append(("ref->read", f"reference encoding {e.hex()} read as {back} consumed {r.tell()}"))
    except Exception as ex:  # the primitives must not raise on a legal value
        out.append(("exception", f"{type(ex).__name__}: {ex}"))
    return out


def case_number_encoding(e: bytes):
    """Any spec-conforming encoding (possibly non-minimal) must be read as the value the spec assigns."""
    ai = _ai()
    out = []
    v, n = ref7z.dec_number(e, 0)
    try:
        r = io.BytesIO(e + SENTINEL)
        back = ai.read_uint64(r)
        if back != v or r.tell() != n:
            out.append(("encoding->read", f"{e.hex()} means {v} ({n} bytes) but read {back} consuming {r.tell()}"))
    except Exception as ex:
        out.append(("exception", f"{e.hex()}: {type(ex).__name__}: {ex}"))
    return out


def case_bits(bits, checkall: bool):
    ai = _ai()
    out = []
    bits = [bool(b) for b in bits]
    try:
        f = io.BytesIO()
        ai.write_boolean(f, bits, all_defined=checkall)
        b = f.getvalue()
        r = io.BytesIO(b + SENTINEL)
        back = ai.read_boolean(r, len(bits), checkall=checkall)
        if back != bits or r.tell() != len(b):
            out.append(("write->read", f"{bits} -> {b.hex()} -> {back} consumed {r.tell()} of {len(b)}"))
        if checkall:
            rb, rp = ref7z.dec_bits_alldef(b, 0, len(bits))
        else:
            rb, rp = ref7z.dec_bits(b, 0, len(bits))
        if rb != bits or rp != len(b):
            out.append(("write->ref", f"{bits} -> {b.hex()} reference reads {rb}"))
        for shortcut in (True, False):
            e = ref7z.enc_bits_alldef(bits, shortcut) if checkall else ref7z.enc_bits(bits)
            r = io.BytesIO(e + SENTINEL)
            back = ai.read_boolean(r, len(bits), checkall=checkall)
            if back != bits or r.tell() != len(e):
                out.append(("ref->read", f"reference {e.hex()} for {bits} read as {back}"))
    except Exception as ex:
        out.append(("exception", f"{type(ex).__name__}: {ex}"))
    return out


def case_name(s: str):
    ai = _ai()
    out = []
    try:
        f = io.BytesIO()
        ai.write_utf16(f, s)
        b = f.getvalue()
        r = io.BytesIO(b + SENTINEL)
        back = ai.read_utf16(r)
        if back != s or r.tell() != len(b):
            out.append(("write->read", f"len {len(s)}: read back differs ({len(back)} chars)"))
        rs, rp = ref7z.dec_name(b, 0)
        if rs != s or rp != len(b):
            out.append(("write->ref", f"len {len(s)}: reference reads {len(rs)} chars"))
        e = ref7z.enc_name(s)
        r = io.BytesIO(e + SENTINEL)
        back = ai.read_utf16(r)
        if back != s or r.tell() != len(e):
            out.append(("ref->read", f"len {len(s)}: reference encoding read back as {len(back)} chars"))
    except Exception as ex:
        out.append(("exception", f"{type(ex).__name__}: {ex}"))
    return out


def case_scalar(kind: str, v: int):
    ai = _ai()
    out = []
    try:
        f = io.BytesIO()
        if kind == "u32":
            ai.write_uint32(f, v)
            b = f.getvalue()
            back = ai.read_uint32(io.BytesIO(b))[0]
            want = struct.pack("<L", v)
        elif kind == "u64":
            ai.write_real_uint64(f, v)
            b = f.getvalue()
            back = ai.read_real_uint64(io.BytesIO(b))[0]
            want = struct.pack("<Q", v)
        else:
            ai.write_crcs(f, [v, v ^ 0xFFFFFFFF, 0])
            b = f.getvalue()
            back = ai.read_crcs(io.BytesIO(b), 3)
            want = struct.pack("<LLL", v, v ^ 0xFFFFFFFF, 0)
            v = [v, v ^ 0xFFFFFFFF, 0]
        if back != v:
            out.append(("write->read", f"{kind} {v} read back {back}"))
        if b != want:
            out.append(("write->ref", f"{kind} {v} written {b.hex()} spec {want.hex()}"))
    except Exception as ex:
        out.append(("exception", f"{kind}: {type(ex).__name__}: {ex}"))
    return out


# ---- whole headers ----------------------------------------------------------------------------
def build_header(spec: dict):
    """spec -> py7zr Header object graph (no data behind it)."""
    ai = _ai()
    from py7zr.helpers import ArchiveTimestamp

    h = ai.Header()
    n = spec["numfiles"]
    es = spec["emptystream"]
    nd = n - sum(es)
    if spec["folders"]:
        ms = ai.StreamsInfo()
        pi = ai.PackInfo()
        pi.packpos = spec["packpos"]
        pi.packsizes = list(spec["packsizes"])
        pi.numstreams = len(pi.packsizes)
        if spec["packcrc"] is not None:
            pi.digestdefined = [c is not None for c in spec["packcrc"]]
            pi.crcs = [c for c in spec["packcrc"] if c is not None]  # one value per defined stream, as the reader stores them
            pi.enable_digests = True
        else:
            pi.enable_digests = False
        ui = ai.UnpackInfo()
        ss = ai.SubstreamsInfo()
        ss.unpacksizes = []
        for fo in spec["folders"]:
            f = ai.Folder()
            f.coders = [{"method": m, "numinstreams": 1, "numoutstreams": 1, "properties": p} for m, p in fo["coders"]]
            f.bindpairs = [ai.Bond(i + 1, i) for i in range(len(f.coders) - 1)]
            f.unpacksizes = list(fo["unpacksizes"])
            ui.folders.append(f)
            ss.num_unpackstreams_folders.append(len(fo["sub"]))
            ss.unpacksizes.extend(fo["sub"])
            for c in fo["crcs"]:
                ss.digestsdefined.append(c is not None)
                ss.digests.append(c if c is not None else 0)
        ui.numfolders = len(ui.folders)
        ms.packinfo, ms.unpackinfo, ms.substreamsinfo = pi, ui, ss
        h.main_streams = ms
    fi = ai.FilesInfo()
    for i in range(n):
        d = {"emptystream": es[i], "filename": spec["names"][i]}
        if spec["mtime"][i] is not None:
            d["lastwritetime"] = ArchiveTimestamp(spec["mtime"][i])
        elif spec.get("mtime_key_present"):
            d["lastwritetime"] = None
        if spec["attr"][i] is not None:
            d["attributes"] = spec["attr"][i]
        fi.files.append(d)
    fi.emptyfiles = list(spec["emptyfiles"])
    h.files_info = fi
    return h


def case_header(spec: dict, encoded: bool):
    ai = _ai()
    out = []
    try:
        h = build_header(spec)
        fp = io.BytesIO()
        fp.write(bytes(32))
        start, length, crc = h.write(fp, 32, encoded=encoded, encrypted=False)
        blob = fp.getvalue()
        hdr = blob[start : start + length]
        if ref7z.crc32(hdr) != crc:
            out.append(("header-crc", "Header.write returned a CRC that is not the CRC of the bytes written"))
        if start + length != len(blob):
            out.append(("header-extent", "Header.write returned an extent that is not the tail of the file"))
    except Exception as ex:
        return [("write-exception", f"{type(ex).__name__}: {ex}")]
    # --- py7zr reads its own header
    back = None
    try:
        back = ai.Header.retrieve(io.BytesIO(blob), io.BytesIO(hdr), 32)
    except Exception as ex:
        out.append(("read-exception", f"{type(ex).__name__}: {ex}"))
    if back is not None:
        out.extend(_compare_py(spec, back))
    # --- reference reads the same bytes
    try:
        if encoded:
            c = ref7z.Cur(hdr, "encoded header info")
            if c.byte() != ref7z.K_ENCODEDHEADER:
                raise ref7z.FormatError("EncodedHeader id expected")
            hs = ref7z._parse_streams(c, True)
            pk = hs["pack"]
            packed = blob[32 + pk["packpos"] : 32 + pk["packpos"] + pk["sizes"][0]]
            raw, _ = ref7z._decode_folder(hs["folders"][0], [packed], None)
        else:
            raw = hdr
        parsed = ref7z.parse_header(raw)
        out.extend(_compare_ref(spec, parsed))
    except (ref7z.FormatError, ref7z.Unsupported) as ex:
        out.append(("ref-rejects", str(ex)))
    except Exception as ex:
        out.append(("ref-exception", f"{type(ex).__name__}: {ex}"))
    return out


def _compare_py(spec, h):
    out = []
    try:
        if spec["folders"]:
            ms = h.main_streams
            if ms.packinfo.packpos != spec["packpos"]:
                out.append(("py:packpos", f"{ms.packinfo.packpos} != {spec['packpos']}"))
            if list(ms.packinfo.packsizes) != list(spec["packsizes"]):
                out.append(("py:packsizes", f"{ms.packinfo.packsizes} != {spec['packsizes']}"))
            if spec["packcrc"] is not None and any(c is not None for c in spec["packcrc"]):
                want_def = [c is not None for c in spec["packcrc"]]
                if list(ms.packinfo.digestdefined) != want_def:
                    out.append(("py:packcrc-defined", f"{ms.packinfo.digestdefined} != {want_def}"))
                if list(ms.packinfo.crcs) != [c for c in spec["packcrc"] if c is not None]:
                    out.append(("py:packcrc", f"{ms.packinfo.crcs}"))
            for k, fo in enumerate(spec["folders"]):
                f = ms.unpackinfo.folders[k]
                if list(f.unpacksizes) != list(fo["unpacksizes"]):
                    out.append(("py:unpacksizes", f"folder {k}: {f.unpacksizes} != {fo['unpacksizes']}"))
                if [(c["method"], c["properties"]) for c in f.coders] != [tuple(x) for x in fo["coders"]]:
                    out.append(("py:coders", f"folder {k}"))
            ss = ms.substreamsinfo
            want_nums = [len(fo["sub"]) for fo in spec["folders"]]
            if list(ss.num_unpackstreams_folders) != want_nums:
                out.append(("py:numunpack", f"{ss.num_unpackstreams_folders} != {want_nums}"))
            want_sizes = [s for fo in spec["folders"] for s in fo["sub"]]
            have = ss.unpacksizes if ss.unpacksizes is not None else [fo.unpacksizes[-1] for fo in ms.unpackinfo.folders]
            if list(have) != want_sizes:
                out.append(("py:subsizes", f"{have} != {want_sizes}"))
            want_crc = [c for fo in spec["folders"] for c in fo["crcs"]]
            got_crc = [d if df else None for d, df in zip(ss.digests, ss.digestsdefined)]
            if got_crc != want_crc:
                out.append(("py:digests", f"{got_crc} != {want_crc}"))
        fi = h.files_info
        if len(fi.files) != spec["numfiles"]:
            out.append(("py:numfiles", f"{len(fi.files)}"))
        for i, f in enumerate(fi.files):
            if f.get("filename") != spec["names"][i]:
                out.append(("py:name", f"file {i}"))
            if bool(f.get("emptystream")) != spec["emptystream"][i]:
                out.append(("py:emptystream", f"file {i}"))
            mt = f.get("lastwritetime")
            if (None if mt is None else int(mt)) != spec["mtime"][i]:
                out.append(("py:mtime", f"file {i}: {mt} != {spec['mtime'][i]}"))
            if f.get("attributes") != spec["attr"][i]:
                out.append(("py:attr", f"file {i}: {f.get('attributes')} != {spec['attr'][i]}"))
    except Exception as ex:
        out.append(("py:compare-exception", f"{type(ex).__name__}: {ex}"))
    return out[:6]


def _compare_ref(spec, p):
    out = []
    s = p["streams"]
    if spec["folders"]:
        if s is None:
            return [("ref:streams-missing", "")]
        if s["pack"]["packpos"] != spec["packpos"]:
            out.append(("ref:packpos", f"{s['pack']['packpos']} != {spec['packpos']}"))
        if s["pack"]["sizes"] != list(spec["packsizes"]):
            out.append(("ref:packsizes", f"{s['pack']['sizes']}"))
        if spec["packcrc"] is not None and any(c is not None for c in spec["packcrc"]):
            if s["pack"]["crcs"] != list(spec["packcrc"]):
                out.append(("ref:packcrc", f"{s['pack']['crcs']} != {spec['packcrc']}"))
        for k, fo in enumerate(spec["folders"]):
            if s["folders"][k]["unpacksizes"] != list(fo["unpacksizes"]):
                out.append(("ref:unpacksizes", f"folder {k}"))
            if s["sub"]["sizes"][k] != list(fo["sub"]):
                out.append(("ref:subsizes", f"folder {k}: {s['sub']['sizes'][k]} != {fo['sub']}"))
            if s["sub"]["crcs"][k] != list(fo["crcs"]):
                out.append(("ref:digests", f"folder {k}: {s['sub']['crcs'][k]} != {fo['crcs']}"))
    f = p["files"]
    if f is None or f["n"] != spec["numfiles"]:
        return out + [("ref:numfiles", "")]
    n = spec["numfiles"]
    if f["names"] != spec["names"]:
        out.append(("ref:names", ""))
    if (f["emptystream"] or [False] * n) != spec["emptystream"]:
        out.append(("ref:emptystream", ""))
    if (f["mtime"] or [None] * n) != spec["mtime"]:
        out.append(("ref:mtime", f"{f['mtime']} != {spec['mtime']}"))
    if (f["attr"] or [None] * n) != spec["attr"]:
        out.append(("ref:attr", f"{f['attr']} != {spec['attr']}"))
    return out[:6]


BIG = [0, 1, 0x7F, 0x80, (1 << 14) - 1, 1 << 14, (1 << 32) - 1, 1 << 32, (1 << 56) - 1, 1 << 56, 1 << 63, (1 << 64) - 1]
U32 = [0, 1, 0x7FFFFFFF, 0x80000000, 0xFFFFFFFF, 0x41ED8010, 0x81A48020]
TIMES = [0, 1, 116444736000000000, (1 << 63) - 1, 1 << 63, (1 << 64) - 1]


def base_spec(numfiles: int, nfolders: int, defined: str):
    """A template header: `numfiles` entries (last one an empty stream when numfiles > 2), nfolders folders."""
    es = [False] * numfiles
    if numfiles > 2:
        es[-1] = True
    nd = numfiles - sum(es)
    nfolders = min(nfolders, nd) if nd else 0
    folders = []
    per = [nd // nfolders + (1 if i < nd % nfolders else 0) for i in range(nfolders)] if nfolders else []
    for k, cnt in enumerate(per):
        sub = [10 + k + j for j in range(cnt)]
        coders = [(b"\x21", b"\x18")] if k % 2 == 0 else [(b"\x21", b"\x18"), (b"\x03\x03\x01\x03", None)]
        folders.append({"coders": coders, "unpacksizes": [sum(sub)] * len(coders), "sub": sub, "crcs": [0x11111111 * (j + 1) & 0xFFFFFFFF for j in range(cnt)]})

    def vec(vals):
        if defined == "all":
            return vals
        if defined == "none":
            return [None] * len(vals)
        if defined == "first":
            return [v if i == 0 else None for i, v in enumerate(vals)]
        if defined == "last":
            return [v if i == len(vals) - 1 else None for i, v in enumerate(vals)]
        return [v if i % 2 == 0 else None for i, v in enumerate(vals)]  # alternating

    return {
        "numfiles": numfiles, "emptystream": es, "emptyfiles": [False] * sum(es),
        "names": [f"n{i}" for i in range(numfiles)],
        "mtime": vec([116444736000000000 + i for i in range(numfiles)]),
        "attr": vec([0x20 + i for i in range(numfiles)]),
        "packpos": 0, "packsizes": [5 + k for k in range(nfolders)], "packcrc": None, "folders": folders,
    }


def header_cases(tier: str):
    """(spec, encoded, label).  Default template plus every single-field deviation over the value sets."""
    cases = []
    for numfiles, nfolders in ((1, 1), (2, 1), (2, 2), (3, 2), (8, 1), (9, 3), (17, 2)):
        for defined in ("all", "none", "first", "last", "alternating"):
            for enc in (False, True):
                cases.append((base_spec(numfiles, nfolders, defined), enc, f"template n={numfiles} f={nfolders} defined={defined}"))
    for numfiles, nfolders in ((2, 1), (9, 3)):
        b = base_spec(numfiles, nfolders, "all")
        for enc in (False, True):
            for v in BIG:
                s = _copy(b); s["packpos"] = v; cases.append((s, enc, f"packpos={v}"))
                for k in range(len(b["packsizes"])):
                    s = _copy(b); s["packsizes"][k] = v; cases.append((s, enc, f"packsizes[{k}]={v}"))
                for k in range(len(b["folders"])):
                    s = _copy(b)
                    fo = s["folders"][k]
                    if v >= sum(fo["sub"][:-1]):
                        fo["sub"][-1] = v - sum(fo["sub"][:-1])
                        fo["unpacksizes"] = [v] * len(fo["coders"])
                        cases.append((s, enc, f"folder[{k}].unpack={v}"))
                    if len(fo["sub"]) > 1 and v < (1 << 63):
                        s = _copy(b)
                        fo = s["folders"][k]
                        fo["sub"][0] = v
                        fo["unpacksizes"] = [min(sum(fo["sub"]), (1 << 64) - 1)] * len(fo["coders"])
                        if sum(fo["sub"]) < 1 << 64:
                            cases.append((s, enc, f"folder[{k}].sub[0]={v}"))
            for v in U32:
                for i in range(numfiles):
                    s = _copy(b); s["attr"][i] = v; cases.append((s, enc, f"attr[{i}]={v:#x}"))
                for k in range(len(b["folders"])):
                    s = _copy(b); s["folders"][k]["crcs"][0] = v; cases.append((s, enc, f"folder[{k}].crc[0]={v:#x}"))
                s = _copy(b); s["packcrc"] = [v] * len(b["packsizes"]); cases.append((s, enc, f"packcrc={v:#x}"))
            for v in TIMES:
                for i in range(numfiles):
                    s = _copy(b); s["mtime"][i] = v; cases.append((s, enc, f"mtime[{i}]={v}"))
            # undefined digests / pack crcs at each single position
            for k in range(len(b["folders"])):
                for j in range(len(b["folders"][k]["crcs"])):
                    s = _copy(b); s["folders"][k]["crcs"][j] = None; cases.append((s, enc, f"folder[{k}].crc[{j}] undefined"))
            if len(b["packsizes"]) > 1:
                for k in range(len(b["packsizes"])):
                    s = _copy(b); s["packcrc"] = [0xABCDEF01 if j != k else None for j in range(len(b["packsizes"]))]
                    cases.append((s, enc, f"packcrc[{k}] undefined"))
            # every single undefined mtime / attribute position
            for i in range(numfiles):
                s = _copy(b); s["mtime"][i] = None; cases.append((s, enc, f"mtime[{i}] undefined"))
                s = _copy(b); s["attr"][i] = None; cases.append((s, enc, f"attr[{i}] undefined"))
            for name in ("", "a" * 255, "あ" * 100, "\U0001F600x", "\x01\x1f", "c:x", " lead", ".hid", "a/b/c/d/e/f"):
                if name == "":
                    continue
                s = _copy(b); s["names"][0] = name; cases.append((s, enc, f"name={name[:12]!r}"))
    return cases


def _copy(s):
    import copy

    return copy.deepcopy(s)


# ---------------------------------------------------------------------------------------------
# shards
# ---------------------------------------------------------------------------------------------
def shard(task):
    kind, arg, seed = task
    sh = Shard()
    if kind == "num_range":
        a, b = arg
        for v in range(a, b):
            r = case_number_value(v)
            sh.case(f"v{v}", nontrivial=True, sample={"value": v} if v == a else None)
            for sym, msg in r:
                sh.violation({"plane": "number", "dir": sym, "bytes_class": len(ref7z.enc_number(v))}, msg, {"kind": "number", "value": v})
    elif kind == "num_pow":
        vals = set()
        for k in range(65):
            for d in (-1, 0, 1):
                v = (1 << k) + d
                if 0 <= v < 1 << 64:
                    vals.add(v)
        rnd = random.Random(seed)
        for _ in range(2000):
            vals.add(rnd.getrandbits(rnd.randrange(1, 65)))
        for v in sorted(vals):
            r = case_number_value(v)
            sh.case(f"v{v}", sample={"value": v} if v == 1 << 56 else None)
            for sym, msg in r:
                sh.violation({"plane": "number", "dir": sym, "bytes_class": len(ref7z.enc_number(v))}, msg, {"kind": "number", "value": v})
    elif kind == "num_classes":
        extra = arg  # number of extra bytes 0..8
        rnd = random.Random(seed * 9 + extra)
        lows = [bytes(extra), b"\xff" * extra, bytes((i + 1) & 0xFF for i in range(extra))] + [rnd.randbytes(extra) for _ in range(3)]
        firsts = [f for f in range(256) if _extra_of(f) == extra]
        for first in firsts:
            for low in ([b""] if extra == 0 else lows):
                e = bytes([first]) + low
                r = case_number_encoding(e)
                v, _ = ref7z.dec_number(e, 0)
                r += case_number_value(v)
                sh.case("e" + e.hex(), sample={"encoding": e.hex(), "value": v} if first == firsts[0] and low == lows[0] else None)
                for sym, msg in r:
                    sh.violation({"plane": "number", "dir": sym, "bytes_class": extra + 1}, msg, {"kind": "encoding", "bytes": e})
    elif kind == "num_nonminimal":
        a, b = arg
        for v in range(a, b):
            for extra in range(0, 9):
                try:
                    e = ref7z.enc_number_len(v, extra)
                except ValueError:
                    continue
                r = case_number_encoding(e)
                sh.case("e" + e.hex(), sample={"encoding": e.hex(), "value": v} if v == a and extra == 8 else None)
                for sym, msg in r:
                    sh.violation({"plane": "number", "dir": sym, "bytes_class": extra + 1, "nonminimal": True}, msg, {"kind": "encoding", "bytes": e})
    elif kind == "bits_small":
        n = arg
        for bits in itertools.product((False, True), repeat=n):
            for checkall in (False, True):
                r = case_bits(bits, checkall)
                sh.case(f"b{n}:{bits}:{checkall}", sample={"bits": bits, "checkall": checkall} if not any(bits) and checkall else None)
                for sym, msg in r:
                    sh.violation({"plane": "bits", "dir": sym, "checkall": checkall}, msg, {"kind": "bits", "bits": list(bits), "checkall": checkall})
    elif kind == "bits_long":
        for n in range(0, 131):
            pats = [[True] * n, [False] * n, [i % 2 == 0 for i in range(n)], [i % 2 == 1 for i in range(n)]]
            pats += [[i == j for i in range(n)] for j in range(n)]
            pats += [[i != j for i in range(n)] for j in range(n)]
            for bits in pats:
                for checkall in (False, True):
                    r = case_bits(bits, checkall)
                    sh.case(f"b{n}:{ref7z.enc_bits(bits).hex()}:{checkall}", sample={"len": n, "pattern": "alternating"} if n == 130 and bits == pats[2] and checkall else None)
                    for sym, msg in r:
                        sh.violation({"plane": "bits", "dir": sym, "checkall": checkall}, msg, {"kind": "bits", "bits": bits, "checkall": checkall})
    elif kind == "names":
        rnd = random.Random(seed)
        alph = {
            "ascii": "abcXYZ019_-.", "space": " a b", "ctrl": "".join(chr(c) for c in range(1, 32)), "bmp": "éあ中א￮퟿�",
            "astral": "\U00010000\U0001F600\U0010FFFF\U000E0001", "drive": "c:", "mixed": "a\U0001F600あ\x01 .",
        }
        for cls, chars in alph.items():
            for ln in (1, 2, 3, 255, 256, 4096):
                for variant in range(3):
                    s = "".join(chars[(i * (variant + 1) + variant) % len(chars)] for i in range(ln)) if variant < 2 else "".join(rnd.choice(chars) for _ in range(ln))
                    r = case_name(s)
                    sh.case("n" + cls + str(ln) + str(variant) + s[:8], sample={"class": cls, "len": ln} if ln == 255 and variant == 0 else None)
                    for sym, msg in r:
                        sh.violation({"plane": "name", "dir": sym, "class": cls}, msg, {"kind": "name", "name": s})
        # every BMP scalar value and a stride over the astral planes, one name each
        for cp in itertools.chain(range(1, 0xD800), range(0xE000, 0x10000), range(0x10000, 0x110000, 257)):
            s = "x" + chr(cp) + "y"
            r = case_name(s)
            sh.case("cp%x" % cp)
            for sym, msg in r:
                sh.violation({"plane": "name", "dir": sym, "class": "codepoint"}, msg, {"kind": "name", "name": s})
    elif kind == "scalars":
        vals32 = sorted({0, 1, 0xFFFFFFFF} | {(1 << k) - 1 for k in range(33)} | {1 << k for k in range(32)} | {((1 << k) + 1) & 0xFFFFFFFF for k in range(32)})
        vals64 = sorted({0, 1} | {(1 << k) - 1 for k in range(65)} | {1 << k for k in range(64)} | {((1 << k) + 1) & ((1 << 64) - 1) for k in range(64)})
        for v in vals32:
            for k in ("u32", "crc"):
                r = case_scalar(k, v)
                sh.case(f"{k}{v}", sample={"kind": k, "value": v} if v == 0xFFFFFFFF else None)
                for sym, msg in r:
                    sh.violation({"plane": "scalar", "dir": sym, "kind": k}, msg, {"kind": "scalar", "scalar": k, "value": v})
        for v in vals64:
            r = case_scalar("u64", v)
            sh.case(f"u64{v}", sample={"kind": "u64", "value": v} if v == (1 << 64) - 1 else None)
            for sym, msg in r:
                sh.violation({"plane": "scalar", "dir": sym, "kind": "u64"}, msg, {"kind": "scalar", "scalar": "u64", "value": v})
    elif kind == "header":
        lo, hi, tier = arg
        cases = header_cases(tier)[lo:hi]
        for spec, enc, label in cases:
            r = case_header(spec, enc)
            sh.case(("h", spec, enc), sample={"header": label, "encoded": enc} if len(sh.samples) < 2 else None)
            for sym, msg in r:
                field = label.split("=")[0].split(" ")[0] if "undefined" not in label else "undefined:" + label.split("[")[0].split(".")[-1]
                if label.startswith("template"):
                    field = "template:" + label.split("defined=")[1]
                sh.violation({"plane": "header", "symptom": sym, "field": field, "many_files": spec["numfiles"] > 8},
                             f"{label} encoded={enc}: {msg}", {"kind": "header", "spec": spec, "encoded": enc})
    return sh.result()


def _extra_of(first: int) -> int:
    extra, mask = 0, 0x80
    while extra < 8 and first & mask:
        extra += 1
        mask >>= 1
    return extra


def replay(case):
    k = case["kind"]
    if k == "number":
        return case_number_value(case["value"])
    if k == "encoding":
        return case_number_encoding(case["bytes"]) + case_number_value(ref7z.dec_number(case["bytes"], 0)[0])
    if k == "bits":
        return case_bits(case["bits"], case["checkall"])
    if k == "name":
        return case_name(case["name"])
    if k == "scalar":
        return case_scalar(case["scalar"], case["value"])
    if k == "header":
        return case_header(case["spec"], case["encoded"])
    raise ValueError(k)


def main(tier="quick", seed=0, only=None):
    chk = Check("C17", "exploration", MODULE, tier, seed)
    limit = 1 << 16 if tier == "quick" else 1 << 24
    step = 1 << 12 if tier == "quick" else 1 << 17
    tasks = [("num_range", (a, min(a + step, limit)), seed) for a in range(0, limit, step)]
    tasks += [("num_pow", None, seed)]
    tasks += [("num_classes", e, seed) for e in range(9)]
    tasks += [("num_nonminimal", (a, a + 1024), seed) for a in range(0, 1 << 14, 1024)]
    tasks += [("bits_small", n, seed) for n in range(13)]
    tasks += [("bits_long", None, seed), ("names", None, seed), ("scalars", None, seed)]
    nh = len(header_cases(tier))
    tasks += [("header", (a, min(a + 200, nh), tier), seed) for a in range(0, nh, 200)]
    rnd = random.Random(seed)
    order = list(range(len(tasks)))
    rnd.shuffle(order)  # the seed only changes dispatch order and the "seeded" low-byte fillers
    with Pool() as pool:
        res = pool.map(f"{MODULE}:shard", [tasks[i] for i in order], soft=900)
    for i, r in zip(order, res):
        chk.merge_pool([r], plane=tasks[i][0])
    return chk.finish(
        rule=(
            "NUMBER: every value below 2^16 (quick) / 2^24 (thorough), every 2^k-1/2^k/2^k+1, every (extra-byte count, leading byte) "
            "class with 6 low-byte fillers, every non-minimal encoding of every value < 2^14; bit vectors: all vectors of length <= 12 and "
            "lengths 0..130 x {all, none, each single bit set/cleared, alternating} x all-defined shortcut on/off; names: 7 character "
            "classes x 6 lengths x 3 fillings and one name per BMP scalar value; UINT32/UINT64/CRC lists at all power-of-two boundaries; "
            "whole headers: 7 geometries x 5 definedness patterns plus every single-field deviation (packpos, pack sizes, unpack sizes, "
            "substream sizes, CRCs, attributes, FILETIMEs, undefined positions, names) x raw/encoded. A case is non-trivial when it reached "
            "all comparisons (py7zr write->read, py7zr write->reference decode, reference encode->py7zr read); distinct by value/encoding."
        ),
        assumptions=[
            "ref7z primitives are written from docs/archive_format.rst / 7zFormat.txt and share no code with py7zr",
            "whole-header plane builds py7zr Header objects directly (no packed data behind them)",
        ],
        exhaustive=True,
        number_values_below=limit,
    )
