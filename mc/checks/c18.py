"""C18 Progress callbacks give a complete, well-ordered account: extraction with an ExtractCallback is run
under the controlled scheduler (E2); workers, the reporter thread and the caller are participants, the
callback methods themselves can yield to the scheduler, the clock is owned by the harness."""
from __future__ import annotations

import io
import os
import shutil

from mc.checks import c13
from mc.core import explore
from mc.core.evidence import Check, Shard, digest
from mc.core.pool import Pool
from mc.core.sched import Deadlock, Scheduler
from mc.lib7z import seams

MODULE = "mc.checks.c18"


def make_callback(sched, log, yielding, cost=0.0):
    from py7zr.callbacks import ExtractCallback

    class CB(ExtractCallback):
        def _ev(self, name, *args):
            if yielding:
                sched.point("cb." + name, None)
            if cost:
                sched.advance(cost)  # a handler that takes a moment (virtual time)
            log.append((name,) + tuple(args))
            if yielding:
                sched.point("cb-done." + name, None)

        def report_start_preparation(self):
            self._ev("pre")

        def report_start(self, processing_file_path, processing_bytes):
            self._ev("start", processing_file_path, processing_bytes)

        def report_update(self, decompressed_bytes):
            self._ev("update", decompressed_bytes)

        def report_end(self, processing_file_path, wrote_bytes):
            self._ev("end", processing_file_path, wrote_bytes)

        def report_postprocess(self):
            self._ev("post")

        def report_warning(self, message):
            self._ev("warning", message)

    return CB()


def execute(spec, choices, wd):
    import py7zr
    import py7zr.py7zr as impl

    blob, members = c13.build_archive(spec["folders"], spec.get("chain", "COPY"))
    apath = os.path.join(wd, "cb.7z")
    with open(apath, "wb") as f:
        f.write(blob)
    ch = explore.Chooser(choices)
    sched = Scheduler(ch)
    sched.clock_step = spec.get("clock_step", 0.0)
    real_open = open

    def sched_open(file, mode="r", *a, **k):
        sched.point("archive.open", None)
        return real_open(file, mode, *a, **k)

    log = []
    fac = c13.SchedFactory(sched)
    fac2 = c13.SchedFactory(sched)
    obs = {}
    targets = spec.get("targets")

    def body():
        src = apath if spec.get("opened", "path") == "path" else io.BytesIO(blob)
        z = py7zr.SevenZipFile(src, "r")
        cb = make_callback(sched, log, spec.get("yielding", False), spec.get("handler_cost", 0.0))
        try:
            if targets is None:
                z.extractall(factory=fac.factory, callback=cb)
            else:
                z.extract(targets=list(targets), factory=fac.factory, callback=cb)
            if spec.get("second_call"):
                z.reset()
                z.extractall(factory=fac2.factory, callback=None if spec["second_call"] == "nocb" else cb)
        finally:
            z.close()
            log.append(("CLOSED",))

    with seams(chunk=spec.get("chunk", 8), py7zr__Thread=sched.Thread, py7zr__queue=sched.queue_module, py7zr__open=sched_open, py7zr__time=sched.time_module):
        res, exc = sched.run_main(body)
    obs.update(exc=exc, deadlock=sched.deadlock, end=sched.end_reason, leaked=sched.leaked, points=sched.points, log=list(log),
               result=fac.result(), result2=fac2.result(), members=members,
               worker_exc=[(p.name, type(p.exc).__name__) for p in sched.parts if p.exc is not None],
               order=digest(repr(log)))
    return ch, obs


def judge(spec, obs):
    out = []
    if obs["deadlock"]:
        out.append(("deadlock", str(obs["deadlock"])))
    if obs["exc"] is not None:
        out.append(("exception", f"{type(obs['exc']).__name__}: {obs['exc']}"))
        return out
    if obs["worker_exc"]:
        out.append(("uncaught-in-thread", str(obs["worker_exc"])))
    log = obs["log"]
    if ("CLOSED",) not in log:
        return out + [("no-close", "close() did not complete")]
    k = log.index(("CLOSED",))
    before, after = log[:k], log[k + 1:]
    if after:
        out.append(("event-after-close", f"{len(after)} callback(s) delivered after close() returned: {after[:3]}"))
    if not spec.get("second_call"):
        return out + grammar(before, obs["members"], dict(obs["result"]), "")
    # two extraction calls in one session: the account of the first call ends with its post-processing event,
    # the rest belongs to the second call (nothing at all if that call was made without a callback)
    cut = next((i + 1 for i, e in enumerate(before) if e == ("post",)), len(before))
    out += grammar(before[:cut], obs["members"], dict(obs["result"]), "call 1: ")
    if spec["second_call"] == "nocb":
        if before[cut:]:
            out.append(("events-for-call-without-callback", f"{len(before[cut:])} event(s) for an extraction made without a callback: {before[cut:][:3]}"))
    else:
        out += grammar(before[cut:], obs["members"], dict(obs["result2"]), "call 2: ")
    return out


def grammar(before, members, delivered, tag):
    out = []
    sizes = dict((n, len(d)) for n, d in members)
    if not before or before[0] != ("pre",):
        out.append(("preparation-not-first", f"{tag}first event is {before[:1]}"))
    if not before or before[-1] != ("post",):
        out.append(("postprocess-not-last", f"{tag}last event before close is {before[-1:]}; {len(before)} events delivered of which {sum(1 for e in before if e[0] == 'post')} post"))
    starts = [e[1] for e in before if e[0] == "start"]
    ends = [e for e in before if e[0] == "end"]
    for n in sorted(set(starts) | {e[1] for e in ends}):
        if starts.count(n) != 1 or sum(1 for e in ends if e[1] == n) != 1:
            out.append(("start-end-count", f"{tag}{n}: {starts.count(n)} start, {sum(1 for e in ends if e[1] == n)} end"))
        else:
            si = next(i for i, e in enumerate(before) if e[0] == "start" and e[1] == n)
            ei = next(i for i, e in enumerate(before) if e[0] == "end" and e[1] == n)
            if ei < si:
                out.append(("end-before-start", tag + n))
    for e in ends:
        if e[1] in sizes and str(e[2]) != str(sizes[e[1]]):
            out.append(("end-size", f"{tag}{e[1]}: end reports {e[2]} bytes, member has {sizes[e[1]]}"))
    for n in delivered:
        if n not in starts:
            out.append(("delivered-without-events", tag + n))
    upd = sum(int(e[1]) for e in before if e[0] == "update")
    want = sum(len(d) for d in delivered.values())
    if upd != want:
        out.append(("update-sum", f"{tag}update events sum to {upd}, delivered members hold {want} bytes"))
    return out


def specs(tier):
    out = []
    b = 2 if tier == "quick" else 3
    out.append({"id": "1f-2m", "folders": [2], "bound": b, "chunk": 16})
    out.append({"id": "1f-2m-yield", "folders": [2], "bound": b, "chunk": 16, "yielding": True})
    out.append({"id": "2f-1+1", "folders": [1, 1], "bound": 1 if tier == "quick" else 2, "chunk": 32})
    out.append({"id": "2f-1+1-yield-clock", "folders": [1, 1], "bound": 1 if tier == "quick" else 2, "chunk": 16, "yielding": True, "clock_step": 1.0})
    out.append({"id": "2f-2+1-clock", "folders": [2, 1], "bound": 1 if tier == "quick" else 2, "chunk": 8, "clock_step": 1.0})
    out.append({"id": "1f-3m-targets", "folders": [3], "bound": 2, "chunk": 16, "targets": ("f0/m1.bin",)})
    out.append({"id": "3f-targets", "folders": [1, 2, 1], "bound": 1 if tier == "quick" else 2, "chunk": 16, "targets": ("f1/m1.bin", "f2/m0.bin", "absent")})
    out.append({"id": "1f-stream", "folders": [2], "bound": 2, "chunk": 16, "opened": "stream"})
    # handlers that take 0.4 s of virtual time each: whatever is still queued when close() is called takes longer than a second
    out.append({"id": "1f-3m-slow-handlers", "folders": [3], "bound": 1, "chunk": 16, "yielding": True, "handler_cost": 0.4})
    # two extraction calls in one session (reset() between them); the second with the same callback or with none
    out.append({"id": "two-calls", "folders": [2], "bound": 2 if tier == "quick" else 3, "chunk": 64, "second_call": "cb"})
    out.append({"id": "two-calls-2f", "folders": [1, 1], "bound": 0, "chunk": 64, "second_call": "cb"})
    out.append({"id": "two-calls-second-without-callback", "folders": [2], "bound": 2 if tier == "quick" else 3, "chunk": 64, "second_call": "nocb"})
    if tier != "quick":
        out.append({"id": "two-calls-3m", "folders": [3], "bound": 2, "chunk": 64, "second_call": "cb"})
        out.append({"id": "two-calls-2f-second-without-callback", "folders": [1, 1], "bound": 0, "chunk": 64, "second_call": "nocb"})
    if tier != "quick":
        out.append({"id": "3f-1+1+1-yield", "folders": [1, 1, 1], "bound": 1, "chunk": 32, "yielding": True})
    return out


def shard(task):
    spec, prefix, bound = task
    sh = Shard()
    wd = os.path.join(os.getcwd(), "c18")
    os.makedirs(wd, exist_ok=True)
    seen = set()
    stack = [list(prefix)]
    n = bad = 0
    while stack:
        p = stack.pop()
        ch, obs = execute(spec, p, wd)
        n += 1
        sh.case((spec["id"], ch.choices), nontrivial=obs["order"] not in seen, sample={"spec": spec["id"], "events": [e[0] for e in obs["log"]][:24]} if len(sh.samples) < 1 and ch.cost() else None)
        seen.add(obs["order"])
        sh.note("event-orders:" + spec["id"], obs["order"])
        sh.count("points", obs["points"])
        sh.count("transitions", len(ch.trace))
        if getattr(obs, "harness_failure", None):
            sh.count("harness_failure")
        for sym, msg in judge(spec, obs):
            sh.violation({"symptom": sym, "harness": spec["id"]}, f"{spec['id']} schedule {ch.decoded()[:8]}: {msg}", {"spec": spec, "choices": ch.choices})
            bad += 1
        if bad >= 50:  # the verdict is settled; a broken tree can make the schedule space explode (e.g. two reporters)
            sh.count("stopped-after-50-violations:" + spec["id"])
            break
        if n >= spec.get("cap", 60000):
            sh.count("capped:" + spec["id"])
            break
        stack.extend(reversed(explore.children(ch, len(p), bound)))
    return sh.result()


def replay(case):
    wd = "/dev/shm/c18r-%d" % os.getpid()
    os.makedirs(wd, exist_ok=True)
    try:
        spec = case["spec"]
        if spec.get("targets"):
            spec["targets"] = tuple(spec["targets"])
        ch, obs = execute(spec, case["choices"], wd)
        return judge(spec, obs)
    finally:
        shutil.rmtree(wd, ignore_errors=True)


def main(tier="quick", seed=0, only=None):
    chk = Check("C18", "model_checking", MODULE, tier, seed)
    wd = "/dev/shm/c18main-%d" % os.getpid()
    os.makedirs(wd, exist_ok=True)
    tasks = []
    for s in specs(tier):
        if only and s["id"] not in only:
            continue
        a = execute(s, [], wd)
        b = execute(s, [], wd)
        if a[1]["order"] != b[1]["order"] or a[0].choices != b[0].choices:
            chk.harness_error(f"{s['id']}: default schedule is not reproducible")
            continue
        tasks.append((s, [], 0))
        tasks += [(s, k, s["bound"]) for k in explore.children(a[0], 0, s["bound"])]
    shutil.rmtree(wd, ignore_errors=True)
    import random

    random.Random(seed).shuffle(tasks)
    with Pool() as pool:
        res = pool.map(f"{MODULE}:shard", tasks, soft=3000)
    for t, r in zip(tasks, res):
        chk.merge_pool([r], plane=t[0]["id"])
    return chk.finish(
        rule=(
            "harnesses: single folder with 2..3 members, 2 and 3 folders (thread-parallel), extractall and extract(targets) with skipped members "
            "and an absent name, opened by path and by stream; callbacks instantaneous or yielding to the scheduler on entry and exit of every "
            "method; clock frozen or advancing 1 s per reading (an update event per chunk). Participants: caller, workers, reporter thread; "
            "scheduling points: thread start/join, archive open, output create/write, queue put/get, callback entry/exit. All interleavings "
            "within the preemption bound per harness (quick 1..2, thorough 2..3; a shard that reaches 60000 executions is reported as capped). Oracle on the recorded callback sequence: preparation first, postprocess "
            "last, exactly one start then one end per processed member, end size = member size, sum of updates = bytes of delivered members, "
            "nothing delivered after close() returns, no deadlock, no exception from extraction or close(). Handlers taking 0.4 s each (slow-handlers) and two calls in one session are harnesses of their own. distinct_nontrivial = distinct callback sequences."
        ),
        assumptions=["time is virtual: the reporter's get(timeout=1) gives up only at quiescence; a join(timeout) gives up once handlers have consumed that much virtual time (handler_cost 0.4 s per event in the slow-handlers harness, 0 elsewhere)",
                     "two extraction calls in one session (reset() in between): each call's account is judged by the same grammar; a second call made without a callback must produce no event"],
        states=max(1, chk.counters.get("points", 0)), transitions=max(1, chk.counters.get("transitions", 0)), traces_validated_against_impl=chk.evals,
        samples=chk.samples or ["(none)"],
    )
