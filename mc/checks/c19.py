"""C19 The command line mirrors the library and its exit status tells the truth.  In-process `Cli().run(argv)`
(status = return value / SystemExit code / 1 for an uncaught exception; the mapping is validated against real
`python -m py7zr` subprocesses on a fixed subset every run) over subcommands x option alphabet x small trees and
exhaustively damaged archives."""
from __future__ import annotations

import contextlib
import io
import os
import pathlib
import shutil
import subprocess
import sys

from mc.checks import c02
from mc.core.device import damage_images
from mc.core.evidence import Check, Shard, digest
from mc.core.pool import Pool, chunks
from mc.gen import bases as basegen
from mc.gen import chains
from mc.lib7z import Collect, fixed_random, install_key_cache, tree_snapshot
from mc.selftest import fixtures

MODULE = "mc.checks.c19"
REPO = os.environ.get("VP_REPO", "/repo")


def cli(argv, cwd=None):
    """-> (status, stdout, stderr)"""
    from py7zr.cli import Cli

    out, err = io.StringIO(), io.StringIO()
    old = os.getcwd()
    if cwd:
        os.chdir(cwd)
    try:
        with contextlib.redirect_stdout(out), contextlib.redirect_stderr(err):
            try:
                rv = Cli().run(argv)
                status = 0 if rv is None else (rv if isinstance(rv, int) else 1)
            except SystemExit as ex:
                status = ex.code if isinstance(ex.code, int) else (0 if ex.code is None else 1)
            except BaseException as ex:  # noqa  (python -m py7zr would print a traceback and exit 1)
                status = 1
                err.write(f"{type(ex).__name__}: {ex}")
    finally:
        os.chdir(old)
    return status, out.getvalue(), err.getvalue()


def real(argv, cwd):
    env = dict(os.environ, PYTHONPATH=REPO)
    r = subprocess.run([sys.executable, "-m", "py7zr"] + argv, cwd=cwd, capture_output=True, text=True, timeout=120, env=env)
    return r.returncode


TREES = [
    [(-1, "file")],
    [(-1, "dir"), (0, "file"), (0, "empty")],
    [(-1, "file"), (-1, "dir"), (1, "dir")],
    [(-1, "dir"), (0, "file"), (-1, "ln-file")],
    [(-1, "file"), (-1, "file"), (-1, "empty")],
]
UNITS = ["", "b", "k", "m", "g", "B", "K", "M", "G"]
SIZES = ["64", "100", "1000", "65536"]


def make_src(base, shape):
    top = os.path.join(base, "src")
    nodes = [c02.default_node(p, k) for p, k in shape]
    exp, paths = c02.build_tree(top, nodes)
    return top, exp


def same_tree(got_root, exp):
    if not os.path.isdir(got_root):
        return f"{got_root} missing"
    got = c02.snapshot(got_root)
    if set(got) != set(exp):
        return f"path set differs: missing {sorted(set(exp) - set(got))[:3]} extra {sorted(set(got) - set(exp))[:3]}"
    for k in exp:
        if got[k][0] != exp[k][0] or (exp[k][0] in ("file", "link") and got[k][1] != exp[k][1]):
            return f"{k!r} differs"
    return None


def case_tree(shape, wd):
    """c -> l -> x -> a -> l/x; status and effects compared with the library."""
    import py7zr

    out = []
    base = os.path.join(wd, "c19")
    shutil.rmtree(base, ignore_errors=True)
    os.makedirs(base)
    top, exp = make_src(base, shape)
    if exp is None:
        return None
    for arcname in ("t.7z", "noext"):
        ap = os.path.join(base, "t.7z" if arcname == "t.7z" else "noext.7z")
        st, so, se = cli(["c", arcname, "src"], cwd=base)
        if st != 0 or not os.path.exists(ap):
            out.append(("create-status", f"c {arcname} src -> status {st}, archive exists={os.path.exists(ap)}: {se[-150:]}"))
            continue
        with py7zr.SevenZipFile(ap) as z:
            names = z.getnames()
        st, so, se = cli(["l", os.path.basename(ap)], cwd=base)
        if st != 0:
            out.append(("list-status", f"l -> {st}: {se[-150:]}"))
        else:
            listed = [line.split(None, 5)[-1] if False else line for line in so.splitlines()]
            for n in names:
                if not any(line.rstrip().endswith(n) for line in so.splitlines()):
                    out.append(("list-content", f"'l' does not show member {n!r}"))
                    break
        for verbose in (False, True):
            dest = os.path.join(base, "out-v" if verbose else "out")
            shutil.rmtree(dest, ignore_errors=True)
            st, so, se = cli(["x"] + (["--verbose"] if verbose else []) + [os.path.basename(ap), dest], cwd=base)
            if st != 0:
                out.append(("extract-status", f"x -> {st}: {se[-150:]}"))
            else:
                d = same_tree(os.path.join(dest, "src"), exp)
                if d:
                    out.append(("extract-content", f"c then x{' --verbose' if verbose else ''}: {d}"))
        # x without output directory: extracts into the current directory
        cw = os.path.join(base, "cwdx")
        os.makedirs(cw, exist_ok=True)
        st, so, se = cli(["x", ap], cwd=cw)
        if st != 0 or same_tree(os.path.join(cw, "src"), exp):
            out.append(("extract-cwd", f"x without odir -> {st} {same_tree(os.path.join(cw, 'src'), exp)}"))
        shutil.rmtree(cw, ignore_errors=True)
    # append
    ap = os.path.join(base, "t.7z")
    if os.path.exists(ap):
        with open(os.path.join(base, "extra.txt"), "wb") as f:
            f.write(b"appended by the command line")
        with py7zr.SevenZipFile(ap) as z:
            before = z.getnames()
        st, so, se = cli(["a", "t.7z", "extra.txt"], cwd=base)
        if st != 0:
            out.append(("append-status", f"a -> {st}: {se[-150:]}"))
        else:
            dest = os.path.join(base, "out2")
            st, so, se = cli(["x", "t.7z", dest], cwd=base)
            d = same_tree(os.path.join(dest, "src"), exp) if st == 0 else f"x after a -> {st}"
            if d:
                out.append(("append-disturbs", f"after 'a': {d}"))
            elif not os.path.exists(os.path.join(dest, "extra.txt")):
                out.append(("append-content", "appended member missing"))
            with py7zr.SevenZipFile(ap) as z:
                if z.getnames()[: len(before)] != before:
                    out.append(("append-disturbs", f"member list changed from {before} to {z.getnames()}"))
        st, _, _ = cli(["t", "t.7z"], cwd=base)
        if st != 0:
            out.append(("test-status", f"t on an intact archive -> {st}"))
        # error statuses
        st, _, _ = cli(["c", "t.7z", "src"], cwd=base)
        if st == 0:
            out.append(("create-existing", "c on an existing archive exits 0"))
        st, _, _ = cli(["a", "missing.7z", "extra.txt"], cwd=base)
        if st == 0:
            out.append(("append-missing", "a on a missing archive exits 0"))
    # the spelling of the source argument: 'c'/'a' must store the names the library stores for the same argument
    nest = os.path.join(base, "nest", "deeper")
    os.makedirs(nest)
    shutil.copytree(top, os.path.join(nest, "src"), symlinks=True)
    for k, arg in enumerate(("./src", "src/", "nest/deeper/src", os.path.join(base, "nest", "deeper", "src"), "nest")):
        ca, la = os.path.join(base, f"arg{k}-cli.7z"), os.path.join(base, f"arg{k}-lib.7z")
        st, so, se = cli(["c", os.path.basename(ca), arg], cwd=base)
        old = os.getcwd()
        os.chdir(base)
        try:
            lib_err = None
            try:
                with py7zr.SevenZipFile(la, "w") as z:
                    z.writeall(pathlib.Path(arg))
            except Exception as ex:
                lib_err = type(ex).__name__
        finally:
            os.chdir(old)
        if lib_err is not None:
            if st == 0:
                out.append(("create-arg-status", f"c <{arg}> exits 0 although writeall({arg!r}) raises {lib_err}"))
            continue
        if st != 0:
            out.append(("create-arg-status", f"c <{arg}> -> status {st} although writeall({arg!r}) succeeds: {se[-120:]}"))
            continue
        with py7zr.SevenZipFile(ca) as z1, py7zr.SevenZipFile(la) as z2:
            n1, n2 = z1.getnames(), z2.getnames()
        if n1 != n2:
            out.append(("create-arg-names", f"c <{arg}> stores {n1[:4]} but writeall({arg!r}) stores {n2[:4]}"))
        # the same through 'a' onto a copy of the first archive
        aa, al = os.path.join(base, f"arg{k}-acli.7z"), os.path.join(base, f"arg{k}-alib.7z")
        if os.path.exists(os.path.join(base, "noext.7z")):
            shutil.copy(os.path.join(base, "noext.7z"), aa)
            shutil.copy(os.path.join(base, "noext.7z"), al)
            st, so, se = cli(["a", os.path.basename(aa), arg], cwd=base)
            os.chdir(base)
            try:
                with py7zr.SevenZipFile(al, "a") as z:
                    z.writeall(pathlib.Path(arg))
            except Exception:
                al = None
            finally:
                os.chdir(old)
            if al is not None and st == 0:
                with py7zr.SevenZipFile(aa) as z1, py7zr.SevenZipFile(al) as z2:
                    n1, n2 = z1.getnames(), z2.getnames()
                if n1 != n2:
                    out.append(("append-arg-names", f"a <{arg}> yields {n1[-4:]} but appending writeall({arg!r}) yields {n2[-4:]}"))
            elif (al is None) != (st != 0):
                out.append(("append-arg-status", f"a <{arg}> -> status {st}, library append {'raises' if al is None else 'succeeds'}"))
    shutil.rmtree(base, ignore_errors=True)
    return out


def case_volume(size, unit, wd):
    import multivolumefile
    import py7zr

    out = []
    base = os.path.join(wd, "c19v")
    shutil.rmtree(base, ignore_errors=True)
    os.makedirs(base)
    top, exp = make_src(base, TREES[1])
    st, so, se = cli(["c", "-v", size + unit, "vol.7z", "src"], cwd=base)
    vols = sorted(f for f in os.listdir(base) if f.startswith("vol.7z."))
    if st != 0 or not vols:
        out.append(("volume-status", f"c -v {size + unit} -> status {st}, {len(vols)} volumes: {se[-120:]}"))
        shutil.rmtree(base, ignore_errors=True)
        return out
    want = int(size) * {"": 1, "b": 1, "k": 1024, "m": 1 << 20, "g": 1 << 30}[unit.lower()]
    sizes = [os.path.getsize(os.path.join(base, v)) for v in vols]
    if any(s > want for s in sizes) or any(s != want for s in sizes[:-1]):
        out.append(("volume-size", f"-v {size + unit}: volumes {sizes[:4]} for a requested size of {want}"))
    blob = b"".join(open(os.path.join(base, v), "rb").read() for v in vols)
    try:
        with py7zr.SevenZipFile(io.BytesIO(blob)) as z:
            dest = os.path.join(base, "o")
            z.extractall(path=dest)
        d = same_tree(os.path.join(dest, "src"), exp)
        if d:
            out.append(("volume-content", f"-v {size + unit}: {d}"))
    except Exception as ex:
        out.append(("volume-content", f"-v {size + unit}: concatenated volumes unreadable: {type(ex).__name__}: {ex}"))
    st, so, se = cli(["l", "vol.7z.0001"], cwd=base)
    if st != 0:
        out.append(("volume-list", f"l vol.7z.0001 -> {st}: {se[-100:]}"))
    shutil.rmtree(base, ignore_errors=True)
    return out


def library_verdicts(img, password, wd):
    """What the library says about these bytes: (extract_ok, delivered_pristine?, testzip_ok)"""
    import py7zr

    p = os.path.join(wd, "lib.7z")
    with open(p, "wb") as f:
        f.write(img)
    ex_ok = tz_ok = False
    got = None
    try:
        with py7zr.SevenZipFile(p, password=password) as z:
            f = Collect()
            z.extractall(factory=f)
            got = sorted(f.as_list())
        ex_ok = True
    except Exception:
        pass
    try:
        with open(p, "rb") as fh:
            z = py7zr.SevenZipFile(fh, password=password)
            tz_ok = z.testzip() is None
    except Exception:
        pass
    return ex_ok, got, tz_ok


def case_image(img, pristine, wd, label):
    out = []
    base = os.path.join(wd, "c19i")
    shutil.rmtree(base, ignore_errors=True)
    os.makedirs(base)
    ap = os.path.join(base, "d.7z")
    with open(ap, "wb") as f:
        f.write(img)
    ex_ok, got, tz_ok = library_verdicts(img, None, base)
    st_t, so, se = cli(["t", "d.7z"], cwd=base)
    dest = os.path.join(base, "o")
    st_x, so, se = cli(["x", "d.7z", dest], cwd=base)
    if st_t == 0 and not tz_ok:
        out.append(("t-exits-0-on-damage", f"{label}: 't' exits 0 although the library's integrity test does not pass"))
    if st_t != 0 and tz_ok and ex_ok and got == sorted(pristine):
        out.append(("t-fails-on-good", f"{label}: 't' exits {st_t} on an archive the library tests as good"))
    if st_x == 0:
        snap = tree_snapshot(dest) if os.path.isdir(dest) else {}
        # (a symbolic link member is delivered as a link: its text is the member's data)
        files = sorted((k, v[1] if v[0] == "file" else v[1].encode()) for k, v in snap.items() if v[0] in ("file", "link"))
        if not ex_ok:
            out.append(("x-exits-0-on-failure", f"{label}: 'x' exits 0 although library extraction raises"))
        elif files != sorted(pristine):
            out.append(("x-exits-0-wrong-content", f"{label}: 'x' exits 0 but the extracted files differ from the original members"))
    elif ex_ok and got == sorted(pristine):
        out.append(("x-fails-on-good", f"{label}: 'x' exits {st_x} although library extraction succeeds with the original bytes"))
    # 'a' on the same image: status 0 only if the earlier members are still listed afterwards (an archive whose header
    # cannot be read has nothing to append to)
    import py7zr

    def names_of(path):
        try:
            with py7zr.SevenZipFile(path) as z:
                return z.getnames()
        except Exception:
            return None

    before = names_of(ap)
    with open(os.path.join(base, "extra.txt"), "wb") as f:
        f.write(b"appended by the command line\n")
    st_a, so, se = cli(["a", "d.7z", "extra.txt"], cwd=base)
    if st_a == 0:
        after = names_of(ap)
        if before is None:
            out.append(("a-exits-0-on-unreadable", f"{label}: 'a' exits 0 on an archive the library cannot open; afterwards it lists {after}"))
        elif after is None or after[:len(before)] != before:
            out.append(("a-exits-0-members-lost", f"{label}: 'a' exits 0 but the earlier members {before} became {after}"))
    shutil.rmtree(base, ignore_errors=True)
    return out


def shard(task):
    kind, arg = task
    sh = Shard()
    install_key_cache()
    wd = os.getcwd()
    if kind == "trees":
        for shape in arg:
            r = case_tree(shape, wd)
            if r is None:
                continue
            sh.case(("tree", shape), sample={"tree": shape} if len(sh.samples) < 1 else None)
            sh.count("cli_invocations", 24)
            for sym, msg in r:
                sh.violation({"symptom": sym, "plane": "trees"}, f"tree {shape}: {msg}", {"kind": "tree", "shape": shape})
    elif kind == "volumes":
        for size, unit in arg:
            r = case_volume(size, unit, wd)
            sh.case(("vol", size, unit), sample={"volume": size + unit} if len(sh.samples) < 1 else None)
            sh.count("cli_invocations", 2)
            for sym, msg in r:
                sh.violation({"symptom": sym, "unit": "none" if unit == "" else "suffix"}, msg, {"kind": "volume", "size": size, "unit": unit})
    elif kind == "images":
        bidx, tier, lo, hi = arg
        base = basegen.all_bases(tier)[bidx]
        for label, img in list(damage_images(base["blob"], base["packed"], ("flip", "trunc")))[lo:hi]:
            r = case_image(img, base["pristine"], wd, f"{base['name']} {label}")
            sh.case(digest(img), nontrivial=label[1] >= 6)
            sh.count("cli_invocations", 3)
            for sym, msg in r:
                sh.violation({"symptom": sym, "base": base["name"]}, msg, {"kind": "image", "base": bidx, "tier": tier, "label": list(label)})
    elif kind == "special":
        # archives that need a password not given / use an unsupported method / are not archives at all
        from mc.ref import ref7z

        gen = os.path.join(wd, "c19gen")
        os.makedirs(gen, exist_ok=True)
        # a directory and an empty file written without any streams section (what 7-Zip writes for such a tree)
        with open(os.path.join(gen, "nostreams.7z"), "wb") as f:
            f.write(ref7z.write([{"name": "d", "kind": "dir", "data": None, "mtime": 132223104000000000, "attr": 0x10},
                                 {"name": "d/e.txt", "kind": "emptyfile", "data": b"", "mtime": 132223104000000001, "attr": 0x20}]))
        # archives py7zr itself writes with a password (they record CRCs of the packed streams, unlike the third-party
        # fixtures: an integrity test that stops at those CRCs never needs the password - seeded change C19e)
        import py7zr

        PYENC = []
        for name, chain, hdr in (("py-aes-data.7z", "COPY+AES", False), ("py-aes-lzma2.7z", "LZMA2+AES", False), ("py-aes-header.7z", "LZMA2+AES", True)):
            with fixed_random("c19-" + name), py7zr.SevenZipFile(os.path.join(gen, name), "w", filters=chains.py_filters(chain), password="secret") as z:
                if hdr:
                    z.set_encrypted_header(True)
                z.writestr(b"needs the password " * 4, "a.txt")
                z.writestr(b"second member", "d/b.txt")
            PYENC.append(os.path.join(gen, name))
        GOOD = ("test_1.7z", "empty.7z", "test_folder.7z", "nostreams.7z")
        for path in fixtures() + [os.path.join(gen, "nostreams.7z")] + PYENC:
            n = os.path.basename(path)
            if n not in ("encrypted_1.7z", "encrypted_3.7z", "filename_encryption.7z", "lz4.7z", "lzma_bcj2_1.7z", "zstdmt-brotli.7z", "crc_corrupted.7z", "data_corrupted.7z") + GOOD and path not in PYENC:
                continue
            base = os.path.join(wd, "c19s")
            shutil.rmtree(base, ignore_errors=True)
            os.makedirs(base)
            shutil.copy(path, os.path.join(base, n))
            st_t, _, et = cli(["t", n], cwd=base)
            st_x, _, ex = cli(["x", n, os.path.join(base, "o")], cwd=base)
            sh.case(("special", n), sample={"fixture": n, "t": st_t, "x": st_x} if len(sh.samples) < 3 else None)
            sh.count("cli_invocations", 2)
            good = n in GOOD
            st_l = cli(["l", n], cwd=base)[0] if good else 0
            if good and (st_t != 0 or st_x != 0 or st_l != 0):
                sh.violation({"symptom": "status-nonzero-on-good", "fixture": n}, f"{n}: t -> {st_t} ({et}), x -> {st_x} ({ex}), l -> {st_l}", {"kind": "special", "name": n})
            if not good and st_t == 0:
                sh.violation({"symptom": "t-exits-0", "fixture": n}, f"{n} (encrypted without password / unsupported method / damaged): 't' exits 0", {"kind": "special", "name": n})
            if not good and st_x == 0:
                sh.violation({"symptom": "x-exits-0", "fixture": n}, f"{n} (encrypted without password / unsupported method / damaged): 'x' exits 0", {"kind": "special", "name": n})
            shutil.rmtree(base, ignore_errors=True)
        shutil.rmtree(gen, ignore_errors=True)
        for argv, want in ((["t", "nonexistent.7z"], "nonzero"), (["l", __file__], "nonzero"), (["t", __file__], "nonzero"), (["x", __file__], "nonzero"), (["i"], "zero"), ([], "zero")):
            st, _, _ = cli(argv, cwd=wd)
            sh.case(("argv", argv))
            if (want == "zero") != (st == 0):
                sh.violation({"symptom": "status", "argv": " ".join(a if not a.startswith("/") else "<file>" for a in argv)}, f"py7zr {argv} -> {st}, expected {want}", {"kind": "argv", "argv": argv})
    return sh.result()


def mapping_selfcheck(wd):
    """The in-process status mapping must agree with real subprocesses (fixed subset)."""
    base = os.path.join(wd, "c19m")
    shutil.rmtree(base, ignore_errors=True)
    os.makedirs(base)
    make_src(base, TREES[1])
    probs = []
    seq = [["c", "m.7z", "src"], ["l", "m.7z"], ["t", "m.7z"], ["x", "m.7z", "o1"], ["c", "m.7z", "src"], ["a", "nope.7z", "src"], ["t", "src"], ["l", "nope.7z"], ["i"], ["c", "-v", "10x", "v.7z", "src"]]
    for argv in seq:
        a = cli(argv, cwd=base)[0]
        for junk in ("m.7z",) if argv[:2] == ["c", "m.7z"] and False else ():
            pass
        probs.append((argv, a))
    shutil.rmtree(base, ignore_errors=True)
    os.makedirs(base)
    make_src(base, TREES[1])
    bad = []
    for argv, a in probs:
        try:
            b = real(argv, base)
        except Exception as ex:
            return [f"subprocess failed: {ex}"]
        if (a == 0) != (b == 0):
            bad.append(f"{argv}: in-process {a}, subprocess {b}")
    shutil.rmtree(base, ignore_errors=True)
    return bad


def replay(case):
    wd = "/dev/shm/c19r-%d" % os.getpid()
    os.makedirs(wd, exist_ok=True)
    install_key_cache()
    try:
        if case["kind"] == "tree":
            return case_tree([tuple(x) for x in case["shape"]], wd) or []
        if case["kind"] == "volume":
            return case_volume(case["size"], case["unit"], wd)
        if case["kind"] == "image":
            base = basegen.all_bases(case["tier"])[case["base"]]
            want = tuple(case["label"])
            for label, img in damage_images(base["blob"], base["packed"], (want[0],)):
                if tuple(label) == want:
                    return case_image(img, base["pristine"], wd, str(label))
        if case["kind"] == "special":
            old = os.getcwd()
            os.chdir(wd)
            try:
                r = shard(("special", None))
            finally:
                os.chdir(old)
            return [(v["sig"]["symptom"], v["what"]) for v in r["violations"] if v["sig"].get("fixture") == case["name"]]
        if case["kind"] == "argv":
            return [("status", cli(case["argv"], cwd=wd)[0])]
        return []
    finally:
        shutil.rmtree(wd, ignore_errors=True)


def main(tier="quick", seed=0, only=None):
    chk = Check("C19", "exploration", MODULE, tier, seed)
    wd = "/dev/shm/c19main-%d" % os.getpid()
    os.makedirs(wd, exist_ok=True)
    bad = mapping_selfcheck(wd)
    shutil.rmtree(wd, ignore_errors=True)
    for b in bad:
        chk.harness_error("exit-status mapping disagrees with a real subprocess: " + b)
    shapes = TREES if tier == "quick" else [s for n in range(1, 4) for s in c02.shapes(n)]
    tasks = [("trees", c) for c in chunks(shapes, 2 if tier == "quick" else 20)]
    vols = [(s, u) for s in SIZES for u in UNITS if not (u.lower() in ("m", "g") and s == "65536" and False)]
    tasks += [("volumes", c) for c in chunks(vols, 3)]
    # every base archive that needs no password: each decoder family fails in its own way (an LZMA1 stream that
    # ends early raises a different exception class than a CRC mismatch; seeded change C19b hid behind that)
    bases = basegen.all_bases(tier)
    pick = [i for i, b in enumerate(bases) if b["password"] is None and b["has_crc"] and (tier == "quick" or ":3f" not in b["name"])]
    for i in pick:
        n = sum(1 for _ in damage_images(bases[i]["blob"], bases[i]["packed"], ("flip", "trunc")))
        step = 300
        tasks += [("images", (i, tier, lo, min(lo + step, n))) for lo in range(0, n, step)]
    tasks.append(("special", None))
    with Pool() as pool:
        res = pool.map(f"{MODULE}:shard", tasks, soft=3000)
    for t, r in zip(tasks, res):
        chk.merge_pool([r], plane=t[0])
    return chk.finish(
        rule=(
            f"{len(shapes)} source trees: c (with and without .7z in the name) -> l (every library-listed name shown) -> x (plain, --verbose, without "
            "output directory) -> a extra file -> x (earlier members undisturbed) -> t, plus the error statuses of c on an existing archive and a on "
            f"a missing one, and c / a with the source spelled './src', 'src/', 'nest/deeper/src', as an absolute path and as an enclosing directory (member names must equal those the library's writeall stores for the same argument); -v SIZE for every SIZE in {SIZES} x every unit in {UNITS} (volumes sized as requested, concatenation extracts to the tree); "
            f"t, x and a on EVERY single-bit flip and EVERY truncation of {len(pick)} base archives (every password-free base of the tier: one per decoder family, raw and packed headers, several folders, reference layouts), judged against the library's own verdict on the "
            "same bytes (exit 0 <=> the library succeeds; exit 0 on x => the extracted files are the original members; exit 0 on a => the library could open the image before and still lists its members first afterwards); encrypted / unsupported-"
            "method / damaged fixtures and non-archives. Statuses are taken in-process (return value / SystemExit / uncaught exception = 1); the "
            "mapping is compared with real `python -m py7zr` subprocesses on 10 invocations every run."
        ),
        assumptions=["-P (password prompt) is not exercised: it needs a terminal", "in-process invocation shares the interpreter; the subprocess subset validates the status mapping"],
        exhaustive=False,
    )
