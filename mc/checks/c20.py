"""C20 Streaming in bounded memory.  The property's sizes (0.5-4 GB) cannot be enumerated; what is decided
exhaustively is the same code with both data-path constants scaled by 1/2048 (I/O block 512 B, extraction chunk
62 500 B, budget 700 MiB/2048 = 350 KiB above the chain's fixed overhead): every codec family x member size
2^10..2^23 x texture x write API x extraction API x solid position, metered with tracemalloc."""
from __future__ import annotations

import io
import os
import shutil
import tracemalloc

from mc.core.evidence import Check, Shard
from mc.core.pool import Pool, chunks
from mc.gen import chains
from mc.lib7z import install_key_cache, seams

MODULE = "mc.checks.c20"
SCALE = 2048
BLOCK = 1048576 // SCALE          # 512
CHUNK = int(128e6) // SCALE       # 62500
BUDGET = 700 * 1024 * 1024 // SCALE  # 358400 bytes
PW = "mem-pw"


class LazySource(io.BufferedIOBase):
    """A seekable source of n bytes that never holds them: zeros / period 3 / pseudo-random (cheap LCG blocks)."""

    def __init__(self, n, texture):
        self.n, self.pos, self.texture = n, 0, texture
        self._rnd = os.urandom(4096) if texture == "random" else None

    def readable(self):
        return True

    def seekable(self):
        return True

    def tell(self):
        return self.pos

    def seek(self, off, whence=0):
        self.pos = off if whence == 0 else (self.pos + off if whence == 1 else self.n + off)
        return self.pos

    def read(self, size=-1):
        if size is None or size < 0:
            size = self.n - self.pos
        size = max(0, min(size, self.n - self.pos))
        if self.texture == "zeros":
            data = bytes(size)
        elif self.texture == "period3":
            start = self.pos % 3
            data = (b"abc" * (size // 3 + 2))[start : start + size]
        elif self.texture == "noise":
            # incompressible for every codec (the "random" texture repeats a 4 KiB block, which LZMA-class coders see through)
            import random

            first, last = self.pos // 4096, (self.pos + size + 4095) // 4096
            buf = b"".join(random.Random(k).randbytes(4096) for k in range(first, last))
            data = buf[self.pos - first * 4096 :][:size]
        else:
            start = self.pos % 4096
            data = (self._rnd[start:] + self._rnd * (size // 4096 + 1))[:size]
        self.pos += size
        return data


def null_factory():
    from py7zr.io import NullIO, WriterFactory

    class F(WriterFactory):
        def create(self, filename):
            return NullIO()

    return F()


def measure(chain, n, texture, write_api, extract_api, position, wd, scale=SCALE, link=False):
    """-> dict(write_peak, extract_peak, ok).  link: the big member carries the UNIX symbolic-link attribute (its contents are
    then the link text, which extraction to a path has to read before it can create the link)."""
    import stat

    import py7zr

    install_key_cache()
    shutil.rmtree(wd, ignore_errors=True)
    os.makedirs(wd)
    apath = os.path.join(wd, "big.7z")
    pw = PW if chains.needs_password(chain) else None
    small = b"small member " * 3
    res = {}
    with seams(block=1048576 // scale, chunk=int(128e6) // scale):
        src_path = os.path.join(wd, "big.src")
        if write_api == "write":
            with open(src_path, "wb") as f:  # built piecewise so that building it does not count
                lz = LazySource(n, texture)
                while True:
                    b = lz.read(65536)
                    if not b:
                        break
                    f.write(b)
        tracemalloc.start()
        tracemalloc.reset_peak()
        base = tracemalloc.get_traced_memory()[0]
        try:
            with py7zr.SevenZipFile(apath, "w", filters=chains.py_filters(chain), password=pw) as z:
                z.set_encoded_header_mode(False)
                if position in ("last", "between"):
                    z.writestr(small, "small-before")
                if position.startswith("after-"):
                    # many small members in front of the big one (a source tree next to a disk image): each of them is
                    # one short decoding call before the big member is reached
                    for i in range(int(position.split("-")[1])):
                        z.writestr(b"0123456789abcdef", f"s/{i:05d}")
                if write_api == "writef":
                    z.writef(LazySource(n, texture), "big.bin")
                else:
                    z.write(src_path, "big.bin")
                if link:
                    z.header.files_info.files[-1]["attributes"] = stat.FILE_ATTRIBUTE_ARCHIVE | 0x8000 | ((stat.S_IFLNK | 0o777) << 16)
                if position in ("first", "between"):
                    z.writestr(small, "small-after")
            res["write_peak"] = tracemalloc.get_traced_memory()[1] - base
        except Exception as ex:
            tracemalloc.stop()
            return {"error": f"write: {type(ex).__name__}: {ex}"}
        tracemalloc.reset_peak()
        base = tracemalloc.get_traced_memory()[0]
        try:
            with py7zr.SevenZipFile(apath, "r", password=pw) as z:
                if extract_api == "path":
                    z.extractall(path=os.path.join(wd, "out"))
                elif extract_api == "factory":
                    z.extractall(factory=null_factory())
                else:
                    if z.testzip() is not None:
                        res["error"] = "testzip reports damage on an intact archive"
            res["extract_peak"] = tracemalloc.get_traced_memory()[1] - base
        except Exception as ex:
            if link:
                # refusing such a member is fine; what it cost to get there is what is measured
                res["extract_peak"] = tracemalloc.get_traced_memory()[1] - base
                res["refused"] = type(ex).__name__
            else:
                res["error"] = f"extract: {type(ex).__name__}: {ex}"
        tracemalloc.stop()
    if extract_api == "path" and "error" not in res and not link:
        p = os.path.join(wd, "out", "big.bin")
        if not os.path.exists(p) or os.path.getsize(p) != n:
            res["error"] = "extracted size differs"
    shutil.rmtree(wd, ignore_errors=True)
    return res


SIZES = [1 << 10, 1 << 13, 1 << 16, 3 << 17, 1 << 20, 3 << 20, 1 << 22, 1 << 23]
TEXTURES = ["zeros", "period3", "random"]


def compressor_of(chain):
    return [p for p in chain.split("+") if p not in ("AES", "X86", "ARM", "ARMT", "PPC", "SPARC", "IA64", "DELTA")][-1:] or ["AES"]


def series(chain, texture, tier):
    """One growth series: the same configuration at every size; judged against its own smallest size."""
    sizes = SIZES if tier == "thorough" else [1 << 10, 1 << 16, 1 << 20, 1 << 22]
    k = (len(chain) + len(texture)) % 3
    write_api = ["writef", "write"][(len(chain) + TEXTURES.index(texture)) % 2]
    position = ["first", "last", "between"][k]
    for extract_api in (["path", "factory", "testzip"] if tier == "thorough" else [["path", "factory", "testzip"][(k + TEXTURES.index(texture)) % 3]]):
        yield {"chain": chain, "texture": texture, "write_api": write_api, "extract_api": extract_api, "position": position, "sizes": sizes}


def run_series(s, wd):
    """Two questions per configuration.
    (1) growth with member size: at scale 1/2048, peak(n=4 MiB) - peak(n=1 MiB) must stay within the scaled budget
        (a plateau reached below 1 MiB is constant overhead, not growth);
    (2) working set vs the budget at real scale: the same 4 MiB member at scales 1/2048, 1/1024, 1/512.  A working set
        a*block + b*chunk + const is linear in the scale factor; the slope extrapolated to scale 1 is the part that
        scales with the constants and must stay below 700 MiB.  If the three points are not collinear the
        extrapolation is not trusted (counted, not judged)."""
    out = []
    points = []
    n_mid, n_big = s.get("n_mid", 1 << 20), s.get("n_big", 1 << 22)
    plan = [(SCALE, n_mid), (SCALE, n_big)] + ([] if s.get("growth_only") else [(SCALE // 2, n_big), (SCALE // 4, n_big)])
    m = {}
    for scale, n in plan:
        r = measure(s["chain"], n, s["texture"], s["write_api"], s["extract_api"], s["position"], wd, scale=scale, link=s.get("link", False))
        points.append((scale, n, r.get("write_peak"), r.get("extract_peak")))
        if "error" in r:
            return [("error", f"scale 1/{scale} n={n}: {r['error']}")], points, {}
        m[(scale, n)] = r
    notes = {}
    control = {}
    if s.get("growth_only"):
        # incompressible contents fill codec windows that are NOT scaled (Brotli's 4 MiB ring buffer fills between 1 and
        # 4 MiB of input): the same two sizes with the big member alone are the control, only growth beyond it is judged
        for n in (n_mid, n_big):
            r = measure(s["chain"], n, s["texture"], s["write_api"], s["extract_api"], "alone", wd, scale=SCALE)
            points.append((SCALE, n, r.get("write_peak"), r.get("extract_peak")))
            if "error" in r:
                return [("error", f"control n={n}: {r['error']}")], points, {}
            control[n] = r
    for direction in ("write", "extract"):
        k = direction + "_peak"
        grow = m[(SCALE, n_big)][k] - m[(SCALE, n_mid)][k]
        if control:
            grow -= max(0, control[n_big][k] - control[n_mid][k])
        if grow > BUDGET and not control:
            # a codec constant that the scaling does not shrink (a window, an output granule) can fill up between 1 and 4 MiB:
            # growth with member size goes on beyond 4 MiB, a plateau does not (Brotli's limited output settles near 490 KiB)
            big = 4 * n_big
            r16 = measure(s["chain"], big, s["texture"], s["write_api"], s["extract_api"], s["position"], wd, scale=SCALE, link=s.get("link", False))
            points.append((SCALE, big, r16.get("write_peak"), r16.get("extract_peak")))
            if "error" not in r16 and r16[k] - m[(SCALE, n_big)][k] <= BUDGET:
                notes[direction] = "plateau-below-4MiB-not-growth"
                continue
        if grow > BUDGET:
            out.append((direction, "memory-grows-with-member-size",
                        f"scale 1/{SCALE}: peak {m[(SCALE, n_big)][k] // 1024} KiB at n={n_big >> 10} KiB vs {m[(SCALE, n_mid)][k] // 1024} KiB at n={n_mid >> 10} KiB "
                        f"(growth {grow // 1024} KiB{' beyond the control series' if control else ''} > scaled budget {BUDGET // 1024} KiB = 700 MiB/{SCALE})"))
            continue
        if s.get("growth_only"):
            continue
        p1, p2, p3 = m[(SCALE, n_big)][k], m[(SCALE // 2, n_big)][k], m[(SCALE // 4, n_big)][k]
        s1, s2, s3 = 1 / SCALE, 2 / SCALE, 4 / SCALE
        slope12 = (p2 - p1) / (s2 - s1)
        slope13 = (p3 - p1) / (s3 - s1)
        # margin: tracemalloc and the linear model are not exact, so only an extrapolation beyond twice the budget is reported
        if slope13 > 2 * 700 * 1024 * 1024 and slope12 > 2 * 700 * 1024 * 1024:
            if abs(slope12 - slope13) <= 0.25 * max(slope12, slope13):
                out.append((direction, "working-set-exceeds-budget-at-real-scale",
                            f"peak {p1 // 1024} / {p2 // 1024} / {p3 // 1024} KiB at scales 1/{SCALE}, 1/{SCALE // 2}, 1/{SCALE // 4}: the part proportional to "
                            f"block/chunk extrapolates to {int(slope13) >> 20} MiB at the real constants (budget 700 MiB)"))
            else:
                notes[direction] = "nonlinear-in-scale"
    return out, points, notes


def shard(task):
    sh = Shard()
    wd = os.path.join(os.getcwd(), "c20")
    for s in task:
        viol, points, notes = run_series(s, wd)
        sh.evals += len(points)
        sh.nontrivial.add(repr((s["chain"], s["texture"], s["write_api"], s["extract_api"], s["position"])))
        for d, what in notes.items():
            sh.count(f"{what}:{d}")
        if len(sh.samples) < 2:
            sh.samples.append({"series": {k: v for k, v in s.items() if k != "sizes"}, "points_scale_n_writepeak_extractpeak": points})
        for v in viol:
            if v[0] == "error":
                sh.violation({"symptom": "error", "chain": s["chain"]}, f"{s['chain']}/{s['texture']}: {v[1]}", {"series": s})
            else:
                direction, sym, msg = v
                sig = {"symptom": sym, "codec": compressor_of(s["chain"])[0], "direction": direction}
                if s["position"].startswith("after-"):
                    sig["layout"] = "behind-many-small-members"
                if s.get("link"):
                    sig["layout"] = "symlink-member"
                sh.violation(sig,
                             f"{s['chain']} {s['texture']} {s['write_api']}/{s['extract_api']}/{s['position']} ({direction}): {msg}", {"series": s})
    return sh.result()


def replay(case):
    wd = "/dev/shm/c20r-%d" % os.getpid()
    try:
        v, pts, notes = run_series(case["series"], wd)
        return list(v) + [("points", pts)] if v else []
    finally:
        shutil.rmtree(wd, ignore_errors=True)


def main(tier="quick", seed=0, only=None):
    chk = Check("C20", "exploration", MODULE, tier, seed)
    fams = chains.FAMILIES + (chains.FAMILIES_AES if tier == "thorough" else ["LZMA2+AES", "COPY+AES", "ZSTD+AES", "AES"])
    fams = [c for c in fams if c in chains.ALL and "DEFLATE64" not in c or c == "DEFLATE64"]
    allseries = []
    for c in fams:
        for t in TEXTURES:
            allseries += list(series(c, t, tier))
    # the big (incompressible: texture 'noise') member behind 8192 sixteen-byte members of the same solid folder: 8192 short decoding calls
    # come first (real scale: 8192 small files, then a member of 2 GiB vs 8 GiB)
    many = ["LZMA2", "LZMA", "BZIP2", "DEFLATE", "ZSTD", "COPY", "LZMA2+AES", "X86+LZMA2"] + (["PPMD", "BROTLI", "DELTA+LZMA2", "ZSTD+AES", "X86+ZSTD"] if tier == "thorough" else [])
    for c in many:
        if c in chains.ALL:
            for api in (["factory"] if tier == "quick" else ["factory", "path", "testzip"]):
                allseries.append({"chain": c, "texture": "noise", "write_api": "writef", "extract_api": api, "position": "after-8192", "sizes": [], "growth_only": True})
    # a small archive whose big, highly compressible member is flagged as a symbolic link: extraction to a path reads the
    # link text before creating the link (or refuses) - in bounded memory
    for c in ["LZMA2", "COPY", "BZIP2"] + (["ZSTD", "LZMA2+AES", "DEFLATE", "PPMD"] if tier == "thorough" else []):
        for t in ("zeros", "period3") if tier == "thorough" else ("zeros",):
            allseries.append({"chain": c, "texture": t, "write_api": "writef", "extract_api": "path", "position": "between", "sizes": [], "link": True})
    with Pool() as pool:
        res = pool.map(f"{MODULE}:shard", [[s] for s in allseries], soft=3000)
    chk.merge_pool(res)
    return chk.finish(
        rule=(
            f"both size constants on the data path rebound to 1/{SCALE} of their real values (I/O block {BLOCK} B, extraction chunk {CHUNK} B); "
            f"{len(fams)} chains (every codec family, BCJ/Delta prefixes, 7zAES) x textures zeros / period 3 / random x member sizes "
            f"1 MiB and 4 MiB (2048x / 8192x the block) x write API (writef from a lazy source / write from a file) x "
            f"extraction API (path / null-writer factory / testzip) x position of the big member (first / last / between small ones; for {len(many)} chains also behind 8192 sixteen-byte members with incompressible contents; and the big member flagged as a symbolic link, extracted to a path); archive in a real "
            f"file. Meter: tracemalloc peak of the write session and of the read session. Oracle: peak(n) - peak(smallest n) <= {BUDGET // 1024} KiB "
            "(700 MiB scaled), i.e. no growth with member size or compression ratio; a growth is confirmed at 16 MiB before it is reported (a plateau reached between 1 and 4 MiB is a codec constant the scaling does not shrink). evaluations = measured (configuration, size) points; "
            "distinct_nontrivial = growth series."
        ),
        assumptions=["scaling argument: block and chunk are the only size constants between source and sink, both scaled by the same factor (DESIGN.md C20)",
                     "tracemalloc sees Python-level buffers and the bytes objects codec extensions return, not codec-internal C allocations (dictionaries do not scale with member size)"],
        exhaustive=False, scale=SCALE,
    )
