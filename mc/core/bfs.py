"""E3: level-synchronous explicit-state BFS over histories.

A state is the event history that reaches it; `step(hist)` (run in pool workers) builds a fresh real
object, replays the history and returns (canonical_state_key, violations, info).  Histories whose
canonical key was seen before are not extended (dedup); with dedup disabled every history is its own
state.  The caller supplies `enabled(hist)` (the language) and the worker function path.
"""
from __future__ import annotations

from mc.core.pool import chunks


def bfs(pool, worker_path: str, ctx, enabled, max_depth: int, dedup: bool = True, chunk: int = 40, soft: float = 900.0):
    """ctx: picklable context passed to every worker call as (ctx, [histories]).
    The worker returns a list of dicts {hist, key, violations, info}.
    Returns dict(states, transitions, per_depth, results(list of dict), worker_errors)."""
    seen: dict[str, tuple] = {}
    frontier = [()]
    results = []
    transitions = 0
    per_depth = []
    errors = []
    # the initial state
    init = pool.map(worker_path, [(ctx, [()])], soft=soft)
    for status, res in init:
        if status != "ok":
            errors.append(f"initial state: {status}: {str(res)[-800:]}")
            return {"states": 0, "transitions": 0, "per_depth": [], "results": [], "errors": errors, "merged": 0}
        for r in res:
            seen[r["key"]] = ()
            results.append(r)
    merged = 0
    for depth in range(1, max_depth + 1):
        cand = []
        for h in frontier:
            for ev in enabled(h):
                cand.append(h + (ev,))
        if not cand:
            break
        transitions += len(cand)
        nxt = []
        out = pool.map(worker_path, [(ctx, c) for c in chunks(cand, chunk)], soft=soft)
        for status, res in out:
            if status != "ok":
                errors.append(f"depth {depth}: {status}: {str(res)[-800:]}")
                continue
            for r in res:
                results.append(r)
                k = r["key"] if dedup else repr(r["hist"])
                if k in seen:
                    merged += 1
                    continue
                seen[k] = tuple(r["hist"])
                nxt.append(tuple(r["hist"]))
        per_depth.append({"depth": depth, "histories": len(cand), "new_states": len(nxt)})
        frontier = nxt
    return {"states": len(seen), "transitions": transitions, "per_depth": per_depth, "results": results, "errors": errors, "merged": merged}
