"""E4: recording file device + image enumerators (crash prefixes, damage images)."""
from __future__ import annotations

import io


# ---------------------------------------------------------------------------------------------
# damage images (C04 / C05)
# ---------------------------------------------------------------------------------------------
def damage_images(base: bytes, packed: tuple[int, int] | None = None, kinds=None):
    """Yield (label, image) for the exhaustive damage classes of DESIGN 2.4.
    label = (kind, offset, extra)."""
    n = len(base)
    kinds = kinds or ("flip", "trunc", "over", "insert", "remove", "burst", "swap", "extend")
    if "flip" in kinds:
        for i in range(n):
            for b in range(8):
                img = bytearray(base)
                img[i] ^= 1 << b
                yield ("flip", i, b), bytes(img)
    if "trunc" in kinds:
        for k in range(n):
            yield ("trunc", k, 0), base[:k]
    if "over" in kinds:
        for i in range(n):
            for v in {0x00, 0xFF, (base[i] + 1) & 0xFF} - {base[i]}:
                img = bytearray(base)
                img[i] = v
                yield ("over", i, v), bytes(img)
    if "insert" in kinds:
        for i in range(n + 1):
            yield ("insert", i, 0), base[:i] + b"\x00" + base[i:]
            yield ("insert", i, 0xA5), base[:i] + b"\xa5" + base[i:]
    if "remove" in kinds:
        for i in range(n):
            yield ("remove", i, 0), base[:i] + base[i + 1 :]
    if "burst" in kinds:
        for width in (2, 8, 16, 32):
            for i in range(n):
                img = bytearray(base)
                for k in range(width):
                    bit = i * 8 + k
                    if bit // 8 < n:
                        img[bit // 8] ^= 1 << (bit % 8)
                yield ("burst", i, width), bytes(img)
    if "swap" in kinds and packed:
        a, b = packed
        blocks = list(range(a, b - 15, 16))
        for x in range(len(blocks)):
            for y in range(x + 1, len(blocks)):
                img = bytearray(base)
                img[blocks[x] : blocks[x] + 16], img[blocks[y] : blocks[y] + 16] = base[blocks[y] : blocks[y] + 16], base[blocks[x] : blocks[x] + 16]
                if bytes(img) != base:
                    yield ("swap", blocks[x], blocks[y]), bytes(img)
    if "extend" in kinds:
        for k in (1, 16, 4096):
            yield ("extend", n, k), base + bytes(k)
            yield ("extend", n, -k), base + b"\xa5" * k


# ---------------------------------------------------------------------------------------------
# recording device (C14)
# ---------------------------------------------------------------------------------------------
class RecordingFile(io.RawIOBase):
    """An in-memory random-access file that logs every write as (offset, bytes) and every truncate.
    Used raw (stream case: each write call of py7zr is one op) or underneath io.BufferedRandom
    (path case: ops are the flushes the real buffered layer would issue)."""

    def __init__(self, initial: bytes = b"", name=None):
        super().__init__()
        self.data = bytearray(initial)
        self.pos = 0
        self.log: list[tuple] = []
        if name is not None:
            self.name = name

    def readable(self):
        return True

    def writable(self):
        return True

    def seekable(self):
        return True

    def readinto(self, b):
        chunk = self.data[self.pos : self.pos + len(b)]
        b[: len(chunk)] = chunk
        self.pos += len(chunk)
        return len(chunk)

    def read(self, size=-1):
        if size is None or size < 0:
            size = len(self.data) - self.pos
        chunk = bytes(self.data[self.pos : self.pos + size])
        self.pos += len(chunk)
        return chunk

    def write(self, b):
        b = bytes(b)
        self.log.append(("w", self.pos, b))
        end = self.pos + len(b)
        if self.pos > len(self.data):
            self.data += bytes(self.pos - len(self.data))
        self.data[self.pos : end] = b
        self.pos = end
        return len(b)

    def seek(self, off, whence=0):
        if whence == 0:
            self.pos = off
        elif whence == 1:
            self.pos += off
        else:
            self.pos = len(self.data) + off
        if self.pos < 0:
            self.pos = 0
        return self.pos

    def tell(self):
        return self.pos

    def truncate(self, size=None):
        size = self.pos if size is None else size
        self.log.append(("t", size, b""))
        if size < len(self.data):
            del self.data[size:]
        else:
            self.data += bytes(size - len(self.data))
        return size

    def flush(self):
        pass

    def getvalue(self):
        return bytes(self.data)


def apply_ops(base: bytes, ops) -> bytes:
    img = bytearray(base)
    for op in ops:
        kind, off, b = op
        if kind == "t":
            if off < len(img):
                del img[off:]
            else:
                img += bytes(off - len(img))
        else:
            if off > len(img):
                img += bytes(off - len(img))
            img[off : off + len(b)] = b
    return bytes(img)


def crash_images(base: bytes, log, window: int = 2):
    """Every byte-prefix of the op log applied to `base`; plus, for every op boundary j, the images in
    which one of the last `window` completed ops never reached the disk (unsynced reordering)."""
    done = []
    cur = base
    for j, op in enumerate(log):
        kind, off, b = op
        if kind == "t":
            yield ("prefix", j, 0), cur
            cur = apply_ops(cur, [op])
            done.append(op)
            continue
        for k in range(len(b)):
            yield ("prefix", j, k), apply_ops(cur, [(kind, off, b[:k])])
        cur = apply_ops(cur, [op])
        done.append(op)
        for d in range(1, window + 1):
            if len(done) > d:
                dropped = done[: len(done) - d - 1] + done[len(done) - d :]
                yield ("drop", j, d), apply_ops(base, dropped)
    yield ("complete", len(log), 0), cur
