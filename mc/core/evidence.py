"""Check context: counting, violation triage against known_findings.json, evidence + replay files."""
from __future__ import annotations

import hashlib
import json
import os
import subprocess
import sys
import time

VERIF = os.path.dirname(os.path.dirname(os.path.dirname(os.path.abspath(__file__))))
# (overridable so that trial runs against a scratch copy of the repository do not disturb the committed evidence)
EVIDENCE_DIR = os.environ.get("VP_EVIDENCE_DIR") or os.path.join(VERIF, "evidence")
REPLAY_DIR = os.environ.get("VP_REPLAY_DIR") or os.path.join(VERIF, "replays")
KNOWN = os.path.join(VERIF, "known_findings.json")
SCHEMA = "/root/.vp/EVIDENCE.schema.json"


def digest(obj) -> str:
    if isinstance(obj, (bytes, bytearray)):
        b = bytes(obj)
    else:
        b = json.dumps(obj, sort_keys=True, default=repr).encode()
    return hashlib.blake2b(b, digest_size=8).hexdigest()


def jsonable(o):
    if isinstance(o, (bytes, bytearray)):
        return {"__bytes__": bytes(o).hex()}
    if isinstance(o, dict):
        return {str(k): jsonable(v) for k, v in o.items()}
    if isinstance(o, (list, tuple, set, frozenset)):
        return [jsonable(v) for v in o]
    if isinstance(o, (str, int, float, bool)) or o is None:
        return o
    return repr(o)


def unjson(o):
    if isinstance(o, dict):
        if set(o) == {"__bytes__"}:
            return bytes.fromhex(o["__bytes__"])
        return {k: unjson(v) for k, v in o.items()}
    if isinstance(o, list):
        return [unjson(v) for v in o]
    return o


class Shard:
    """Accumulator used inside workers; `.result()` is what travels back to the parent."""

    def __init__(self, max_samples: int = 3):
        self.evals = 0
        self.nontrivial: set[str] = set()
        self.samples: list = []
        self.violations: list = []
        self.counters: dict[str, int] = {}
        self.sets: dict[str, set] = {}
        self.max_samples = max_samples

    def case(self, key, nontrivial: bool = True, sample=None):
        self.evals += 1
        if nontrivial:
            self.nontrivial.add(key if isinstance(key, str) and len(key) == 16 else digest(key))
        if sample is not None and len(self.samples) < self.max_samples:
            self.samples.append(jsonable(sample))

    def count(self, name: str, n: int = 1):
        self.counters[name] = self.counters.get(name, 0) + n

    def note(self, name: str, value):
        self.sets.setdefault(name, set()).add(value if isinstance(value, (str, int)) else digest(value))

    def violation(self, sig: dict, what: str, case):
        if len(self.violations) < 200:
            self.violations.append({"sig": jsonable(sig), "what": what, "case": jsonable(case)})
        else:
            self.count("violations_dropped_over_cap")

    def result(self):
        return {
            "evals": self.evals,
            "nontrivial": sorted(self.nontrivial),
            "samples": self.samples,
            "violations": self.violations,
            "counters": self.counters,
            "sets": {k: sorted(map(str, v)) for k, v in self.sets.items()},
        }


class Check:
    def __init__(self, pid: str, level: str, module: str, tier: str | None = None, seed: int | None = None):
        self.pid = pid
        self.level = level
        self.module = module
        self.tier = tier or os.environ.get("VERIF_TIER", "quick")
        if self.tier not in ("quick", "thorough"):
            self.tier = "quick"
        self.seed = int(seed if seed is not None else os.environ.get("VERIF_SEED", "0") or 0)
        self.t0 = time.time()
        self.evals = 0
        self.nontrivial: set[str] = set()
        self.samples: list = []
        self.violations: list = []
        self.counters: dict[str, int] = {}
        self.sets: dict[str, set] = {}
        self.harness_errors: list[str] = []
        self.planes: dict[str, dict] = {}
        self.extra: dict = {}
        self.capped: list[str] = []

    # -- accumulation ---------------------------------------------------------------------------
    def merge(self, res: dict, plane: str | None = None):
        self.evals += res["evals"]
        before = len(self.nontrivial)
        self.nontrivial.update(res["nontrivial"])
        for s in res["samples"]:
            if len(self.samples) < 10:
                self.samples.append(s if plane is None else {"plane": plane, "case": s})
        self.violations.extend(res["violations"])
        for k, v in res["counters"].items():
            self.counters[k] = self.counters.get(k, 0) + v
        for k, v in res["sets"].items():
            self.sets.setdefault(k, set()).update(v)
        if plane is not None:
            p = self.planes.setdefault(plane, {"evaluations": 0, "distinct_nontrivial": 0})
            p["evaluations"] += res["evals"]
            p["distinct_nontrivial"] += len(self.nontrivial) - before

    def merge_pool(self, results, plane: str | None = None, hang_is_violation=None):
        """results: iterable of (status, res) from Pool.map; non-ok statuses are harness errors unless
        hang_is_violation(idx, status, res) turns them into violations."""
        for idx, (status, res) in enumerate(results):
            if status == "ok":
                self.merge(res, plane)
            elif status == "isolated":
                pass
            elif hang_is_violation is not None and hang_is_violation(idx, status, res):
                pass
            else:
                self.harness_errors.append(f"{plane or ''} shard {idx}: {status}: {str(res)[-1500:]}")

    def isolate(self, func_path, tasks, results, split, case_of, sig_of, soft: float = 600.0, library_alone=None):
        """For every task whose worker died or hung: run each of its cases alone (`split(task)` -> single-case
        tasks).  A case that takes the interpreter down in two fresh processes is a violation with
        `sig_of(single)`/`case_of(single)`; the cases that survive are merged as usual.  Returns the results
        with the dead entries replaced by ("isolated", None) when every death could be attributed to a case."""
        from mc.core.pool import Pool

        out = list(results)
        for i, (status, res) in enumerate(results):
            if status not in ("crash", "hang"):
                continue
            singles = split(tasks[i])
            if not singles:
                continue
            with Pool(tag="vpi") as pool:
                second = pool.map(func_path, singles, soft=soft)
            culprits = []
            unresolved = 0
            for s, (st, r) in zip(singles, second):
                if st == "ok":
                    self.merge(r)
                elif st in ("crash", "hang"):
                    with Pool(1, tag="vpj") as pool:
                        st2, r2 = pool.map(func_path, [s], soft=soft)[0]
                    if st2 == st and library_alone is not None and self._library_dies(library_alone, s):
                        # (rule 3a) the codec library alone dies / fails on this very input: not the code under check
                        culprits.append(s)
                        self.counters["codec_library_death_not_judged"] = self.counters.get("codec_library_death_not_judged", 0) + 1
                    elif st2 == st:
                        culprits.append(s)
                        self.violation(sig_of(s, st), f"the interpreter {'died (exit %s)' % r2 if st == 'crash' else 'hung'} while processing this case, twice, each time in a fresh process", case_of(s))
                    elif st2 == "ok":
                        self.merge(r2)
                        self.counters["death_not_reproduced_alone"] = self.counters.get("death_not_reproduced_alone", 0) + 1
                    else:
                        unresolved += 1
                        self.harness_errors.append(f"isolated case: {st} then {st2}: {str(r2)[-800:]}")
                else:
                    unresolved += 1
                    self.harness_errors.append(f"isolated case: {st}: {str(r)[-800:]}")
            if not unresolved:
                # every case of the dead task has now been judged on its own, in a fresh process (or named as the culprit)
                out[i] = ("isolated", None)
                if not culprits:
                    self.counters["worker_deaths_depending_on_process_history"] = self.counters.get("worker_deaths_depending_on_process_history", 0) + 1
        return out

    @staticmethod
    def _library_dies(library_alone, single) -> bool:
        """library_alone(single) runs in a forked child: True when the child dies/hangs or reports a library defect."""
        from mc.core.pool import forked

        st, val = forked(library_alone, single, timeout=600)
        return st in ("crash", "hang") or (st == "ok" and bool(val))

    def violation(self, sig: dict, what: str, case):
        self.violations.append({"sig": jsonable(sig), "what": what, "case": jsonable(case)})

    def harness_error(self, msg: str):
        self.harness_errors.append(msg)

    # -- finish ---------------------------------------------------------------------------------
    def _known(self):
        try:
            with open(KNOWN) as f:
                data = json.load(f)
        except FileNotFoundError:
            return []
        return [e for e in data.get("findings", []) if e.get("status") == "known" and e.get("property") == self.pid]

    def finish(self, rule: str, assumptions: list[str], exhaustive: bool = False, **coverage_extra) -> int:
        wall = time.time() - self.t0
        known = self._known()
        groups: dict[str, dict] = {}
        for v in self.violations:
            k = json.dumps(v["sig"], sort_keys=True)
            g = groups.setdefault(k, {"sig": v["sig"], "what": v["what"], "case": v["case"], "n": 0})
            g["n"] += 1
        matched: dict[int, int] = {}
        unmatched = []
        for g in groups.values():
            hit = None
            for i, e in enumerate(known):
                m = e.get("match", {})
                if all(g["sig"].get(k) == v for k, v in m.items()):
                    hit = i
                    break
            if hit is None:
                unmatched.append(g)
            else:
                matched[hit] = matched.get(hit, 0) + g["n"]
        if os.environ.get("VP_DUMP"):
            with open(os.environ["VP_DUMP"], "w") as f:
                json.dump([{"sig": g["sig"], "n": g["n"], "what": g["what"]} for g in groups.values()], f, indent=1)
        lines = []
        for i, n in sorted(matched.items()):
            lines.append(f"KNOWN-FINDING: property={self.pid} {known[i].get('what', '')} [{n} occurrence(s) this run]")
        os.makedirs(os.path.join(REPLAY_DIR, self.pid), exist_ok=True)
        for g in unmatched[:25]:
            body = {"property": self.pid, "module": self.module, "sig": g["sig"], "what": g["what"], "case": g["case"],
                    "occurrences": g["n"]}
            name = digest(g["sig"]) + ".json"
            path = os.path.join(REPLAY_DIR, self.pid, name)
            with open(path, "w") as f:
                json.dump(body, f, indent=1, sort_keys=True)
            lines.append(f"VIOLATION property={self.pid} replay={path}  # {g['what'][:300]} sig={json.dumps(g['sig'], sort_keys=True)[:300]}")
        if len(unmatched) > 25:
            lines.append(f"# {len(unmatched) - 25} further distinct violation signatures not printed")
        for h in self.harness_errors[:10]:
            lines.append(f"HARNESS-ERROR property={self.pid} {h}")
        cov = {
            "evaluations": self.evals,
            "distinct_nontrivial": len(self.nontrivial),
            "rule": rule,
            "samples": self.samples[:10] or ["(none)"],
            "exhaustive": bool(exhaustive) and not self.capped,
            "counters": dict(sorted(self.counters.items())),
            "distinct": {k: len(v) for k, v in sorted(self.sets.items())},
            "planes": self.planes,
            "known_findings_matched": [known[i].get("what", "") for i in sorted(matched)],
            "violation_signatures": [g["sig"] for g in unmatched[:25]],
            "harness_errors": self.harness_errors[:10],
            "caps_hit": self.capped,
        }
        cov.update(self.extra)
        cov.update(coverage_extra)
        ev = {
            "property_id": self.pid,
            "tier": self.tier,
            "seed": self.seed,
            "level": self.level,
            "coverage": cov,
            "assumptions": assumptions,
            "wall_s": round(wall, 3),
            "violations": len(unmatched),
        }
        os.makedirs(EVIDENCE_DIR, exist_ok=True)
        path = os.path.join(EVIDENCE_DIR, f"{self.pid}.json")
        tmp = path + ".tmp"
        with open(tmp, "w") as f:
            json.dump(ev, f, indent=1, sort_keys=True)
        os.replace(tmp, path)
        ok = validate(path)
        if ok is False:
            lines.append(f"HARNESS-ERROR property={self.pid} evidence file does not validate against the schema")
        for l in lines:
            print(l)
        print(
            f"{self.pid} tier={self.tier} seed={self.seed} evaluations={self.evals} distinct_nontrivial={len(self.nontrivial)} "
            f"violations={len(unmatched)} known={len(matched)} harness_errors={len(self.harness_errors)} wall={wall:.1f}s"
        )
        sys.stdout.flush()
        if unmatched:
            return 1
        if self.harness_errors or ok is False:
            return 2
        return 0


def validate(path: str):
    """Validate with jsonschema from the tooling venv (not installed in /venv).  None = could not check."""
    code = (
        "import json,sys,jsonschema;"
        f"jsonschema.validate(json.load(open({path!r})), json.load(open({SCHEMA!r})))"
    )
    try:
        r = subprocess.run(["python3-vt", "-c", code], capture_output=True, text=True, timeout=60)
    except Exception:
        return None
    if r.returncode != 0:
        sys.stderr.write(r.stderr[-2000:])
        return False
    return True
