"""E1: stateless choice-tree explorer (deviation-bounded DFS with prefix replay).

A harness body is `body(ch) -> result`; it asks `ch.choose(n, label, cost)` wherever something is
open.  Choice 0 is the default and free; any other choice is a deviation of the given cost.
`explore` runs every execution whose total deviation cost is <= bound.  An execution is identified
by its choice list, which is also its replay recipe (`replay(body, choices)`).
"""
from __future__ import annotations


class HarnessError(BaseException):
    """Replay divergence or an impossible choice.  BaseException on purpose: library code under test that catches
    `Exception` must not be able to swallow it."""


class Chooser:
    def __init__(self, prefix=(), strict: bool = False):
        self.prefix = list(prefix)
        self.strict = strict
        self.trace: list[tuple[int, str, int, int]] = []  # (n, label, cost, choice)

    def choose(self, n: int, label: str = "", cost: int = 1) -> int:
        i = len(self.trace)
        c = self.prefix[i] if i < len(self.prefix) else 0
        if n <= 0:
            raise HarnessError(f"choice point {label!r} with no alternatives")
        if c >= n:
            raise HarnessError(f"replay divergence at point {i} ({label!r}): choice {c} of {n}")
        self.trace.append((n, label, cost, c))
        return c

    def pick(self, seq, label: str = "", cost: int = 1):
        return seq[self.choose(len(seq), label, cost)]

    @property
    def choices(self):
        return [t[3] for t in self.trace]

    def cost(self, upto: int | None = None) -> int:
        tr = self.trace if upto is None else self.trace[:upto]
        return sum(t[2] for t in tr if t[3] != 0)

    def decoded(self):
        return [(t[1], t[3]) for t in self.trace if t[3] != 0]


def children(ch: Chooser, plen: int, bound: int):
    """Prefixes that deviate exactly once more, at a point at or after `plen`."""
    out = []
    choices = ch.choices
    for i in range(plen, len(ch.trace)):
        n, label, cost, c = ch.trace[i]
        if ch.cost(i) + cost > bound:
            continue
        for alt in range(1, n):
            out.append(choices[:i] + [alt])
    return out


def explore(body, bound: int, on_exec, prefix=(), max_exec: int | None = None):
    """Depth-first over all executions reachable from `prefix` within `bound`.
    on_exec(chooser, result) is the oracle hook.  Returns (#executions, capped?)."""
    stack = [list(prefix)]
    n = 0
    while stack:
        p = stack.pop()
        ch = Chooser(p)
        res = body(ch)
        if len(ch.trace) < len(p):
            raise HarnessError(f"replay divergence: prefix {p} longer than execution ({len(ch.trace)} points)")
        on_exec(ch, res)
        n += 1
        if max_exec is not None and n >= max_exec:
            return n, True
        stack.extend(reversed(children(ch, len(p), bound)))
    return n, False


def replay(body, choices):
    ch = Chooser(choices)
    res = body(ch)
    return ch, res
