"""Persistent worker pool with soft (SIGALRM) and hard (kill + respawn) watchdogs.

Every task is `(func_path, arg)`; `func_path` is "package.module:function".  The function runs in a
forked worker that lives for the whole run (no fork per execution) inside its own scratch directory
on tmpfs.  A task that exceeds the soft deadline gets `TimeoutError` raised inside Python code; a
task that exceeds the hard deadline (a C-level hang) gets its worker killed and is reported as
{"__hang__": True}; a worker that dies is reported as {"__crash__": exitcode}.  Neither is swallowed:
the caller decides what a hang or crash means for its property (C05 counts them as violations,
everything else as HARNESS-ERROR).
"""
from __future__ import annotations

import importlib
import multiprocessing as mp
import multiprocessing.connection as mpc
import os
import shutil
import signal
import sys
import time
import traceback

SCRATCH_ROOT = os.environ.get("VP_SCRATCH", "/dev/shm")


class SoftTimeout(BaseException):
    """Raised inside a worker by the soft watchdog.  BaseException on purpose: library code that
    catches `Exception` must not be able to swallow it."""


def _alarm(signum, frame):
    raise SoftTimeout()


def resolve(func_path: str):
    mod, _, name = func_path.partition(":")
    return getattr(importlib.import_module(mod), name)


def _die_with_parent():
    try:
        import ctypes

        ctypes.CDLL("libc.so.6", use_errno=True).prctl(1, signal.SIGKILL)  # PR_SET_PDEATHSIG
    except Exception:
        pass


def forked(fn, arg, timeout: float = 300.0):
    """Run fn(arg) in a forked child of the calling process and bring the (picklable) result back:
    ("ok", result) | ("error", traceback) | ("crash", exitcode) | ("hang", None).
    For cases that are known to leave a C extension in a state that endangers whatever runs next in the same
    process (pyppmd's helper thread after a failed decode): the caller stays clean whatever happens in the child."""
    import pickle

    r, w = os.pipe()
    pid = os.fork()
    if pid == 0:
        code = 0
        try:
            os.close(r)
            _die_with_parent()
            signal.setitimer(signal.ITIMER_REAL, 0)
            try:
                payload = pickle.dumps(("ok", fn(arg)))
            except BaseException as e:  # noqa
                payload = pickle.dumps(("error", "".join(traceback.format_exception(type(e), e, e.__traceback__))[-4000:]))
            with os.fdopen(w, "wb") as f:
                f.write(payload)
        except BaseException:  # noqa
            code = 3
        finally:
            os._exit(code)
    os.close(w)
    buf = bytearray()
    deadline = time.time() + timeout
    import select

    with os.fdopen(r, "rb", buffering=0) as f:
        while True:
            left = deadline - time.time()
            if left <= 0:
                try:
                    os.kill(pid, signal.SIGKILL)
                except OSError:
                    pass
                os.waitpid(pid, 0)
                return ("hang", None)
            ready, _, _ = select.select([f], [], [], min(left, 1.0))
            if ready:
                chunk = f.read(65536)
                if not chunk:
                    break
                buf += chunk
    _, status = os.waitpid(pid, 0)
    if buf:
        try:
            return pickle.loads(bytes(buf))
        except Exception:
            pass
    return ("crash", -os.WTERMSIG(status) if os.WIFSIGNALED(status) else os.WEXITSTATUS(status))


def _worker_main(conn, wdir: str, nice: int):
    _die_with_parent()
    os.makedirs(wdir, exist_ok=True)
    os.chdir(wdir)
    os.umask(0o022)
    signal.signal(signal.SIGALRM, _alarm)
    signal.signal(signal.SIGINT, signal.SIG_IGN)
    while True:
        try:
            msg = conn.recv()
        except EOFError:
            break
        if msg is None:
            break
        func_path, arg, soft = msg
        try:
            fn = resolve(func_path)
            if soft:
                signal.setitimer(signal.ITIMER_REAL, soft)
            try:
                res = fn(arg)
            finally:
                signal.setitimer(signal.ITIMER_REAL, 0)
            conn.send(("ok", res))
        except SoftTimeout:
            conn.send(("soft_timeout", None))
        except BaseException as e:  # noqa
            conn.send(("error", "".join(traceback.format_exception(type(e), e, e.__traceback__))[-4000:]))
    os._exit(0)


class Pool:
    def __init__(self, nworkers: int | None = None, tag: str = "vp"):
        self.n = nworkers or int(os.environ.get("VP_WORKERS", "0")) or min(16, os.cpu_count() or 4)
        self.root = os.path.join(SCRATCH_ROOT, f"{tag}-{os.getpid()}")
        os.makedirs(self.root, exist_ok=True)
        self.ctx = mp.get_context("fork")
        self.workers: list = [None] * self.n
        for k in range(self.n):
            self._spawn(k)

    def _spawn(self, k: int):
        parent, child = self.ctx.Pipe()
        wdir = os.path.join(self.root, f"w{k}")
        p = self.ctx.Process(target=_worker_main, args=(child, wdir, 0), daemon=True)
        p.start()
        child.close()
        self.workers[k] = {"proc": p, "conn": parent, "task": None, "t0": 0.0, "dir": wdir}

    def scratch_dirs(self):
        return [w["dir"] for w in self.workers]

    def run(self, func_path: str, args, soft: float = 60.0, hard: float | None = None):
        """Run func over args; yields (index, status, result) in completion order.
        status in {"ok", "error", "soft_timeout", "hang", "crash"}."""
        hard = hard if hard is not None else soft * 2 + 30
        args = list(args)
        nxt = 0
        pending = 0
        idle = list(range(self.n))
        while nxt < len(args) or pending:
            while idle and nxt < len(args):
                k = idle.pop()
                w = self.workers[k]
                try:
                    w["conn"].send((func_path, args[nxt], soft))
                except (BrokenPipeError, OSError):
                    self._kill(k)
                    self._spawn(k)
                    w = self.workers[k]
                    w["conn"].send((func_path, args[nxt], soft))
                w["task"] = nxt
                w["t0"] = time.time()
                nxt += 1
                pending += 1
            busy = {w["conn"]: k for k, w in enumerate(self.workers) if w["task"] is not None}
            ready = mpc.wait(list(busy), timeout=1.0)
            now = time.time()
            for c in ready:
                k = busy[c]
                w = self.workers[k]
                idx = w["task"]
                try:
                    status, res = c.recv()
                except (EOFError, ConnectionResetError, OSError):
                    w["proc"].join(5)
                    code = w["proc"].exitcode
                    self._kill(k)
                    self._spawn(k)
                    yield idx, "crash", code
                else:
                    w["task"] = None
                    yield idx, status, res
                pending -= 1
                idle.append(k)
            for k, w in enumerate(self.workers):
                if w["task"] is not None and now - w["t0"] > hard:
                    idx = w["task"]
                    self._kill(k)
                    self._spawn(k)
                    pending -= 1
                    idle.append(k)
                    yield idx, "hang", None

    def map(self, func_path: str, args, soft: float = 60.0, hard: float | None = None):
        args = list(args)
        out = [None] * len(args)
        for idx, status, res in self.run(func_path, args, soft, hard):
            out[idx] = (status, res)
        return out

    def _kill(self, k: int):
        w = self.workers[k]
        try:
            w["proc"].kill()
            w["proc"].join(5)
        except Exception:
            pass
        try:
            w["conn"].close()
        except Exception:
            pass
        shutil.rmtree(w["dir"], ignore_errors=True)

    def close(self):
        for k, w in enumerate(self.workers):
            try:
                w["conn"].send(None)
            except Exception:
                pass
        for k, w in enumerate(self.workers):
            w["proc"].join(2)
            if w["proc"].is_alive():
                w["proc"].kill()
                w["proc"].join(2)
        shutil.rmtree(self.root, ignore_errors=True)

    def __enter__(self):
        return self

    def __exit__(self, *a):
        self.close()


def chunks(seq, n):
    seq = list(seq)
    return [seq[i : i + n] for i in range(0, len(seq), n)]
