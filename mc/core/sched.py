"""E2: controlled scheduler over real threads (baton passing), driven by the E1 chooser.

Exactly one participant runs at any time; every other one is parked on its own semaphore.  The
library's `Thread` and `queue` names are rebound to the classes produced here, so the threads and
queues py7zr itself creates become participants / scheduling points.  Blocking is modelled: `join`
and `get` on an empty queue mark the participant as waiting on a predicate.  Timed waits time out
only at quiescence (nobody else can run).  Switching away from a participant that could continue is
a preemption (cost 1); switching at a block or exit is free.
"""
from __future__ import annotations

import sys
import threading
import types


class SchedulerAbort(BaseException):
    """Unwinds parked participants when an execution is over."""


class Deadlock(Exception):
    pass


class Part:
    def __init__(self, pid, name, daemon=False):
        self.id = pid
        self.name = name
        self.daemon = daemon
        self.sem = threading.Semaphore(0)
        self.state = "new"  # new -> ready -> running -> waiting -> done
        self.pred = None
        self.timed = False
        self.timeout_fired = False
        self.thread = None
        self.exc = None
        self.wait_label = ""
        self.deadline = None  # virtual-clock instant at which a timed wait gives up (only join(timeout) sets it)


class Scheduler:
    def __init__(self, chooser, line_trace=False, trace_filter=None, max_points=200000):
        self.ch = chooser
        self.parts: list[Part] = []
        self.trace: list[tuple] = []
        self.aborting = False
        self.clock = 1_600_000_000.0
        self.clock_step = 0.0
        self.line_trace = line_trace
        self.trace_filter = trace_filter or (lambda fn: "/py7zr/" in fn)
        self.deadlock = None
        self.max_points = max_points
        self.points = 0
        self.baton_timeout = 30.0
        self.harness_failure = None
        self.timeouts = 0
        self.preemptions = 0
        main = Part(0, "main")
        main.state = "running"
        main.thread = threading.current_thread()
        self.parts.append(main)
        self.cur = main
        self.main = main
        self.main_done = False
        self.end_reason = None
        outer = self

        class CThread:
            def __init__(self, group=None, target=None, name=None, args=(), kwargs=None, daemon=None):
                self._target, self._args, self._kwargs = target, args, kwargs or {}
                self.daemon = bool(daemon)
                self.part = Part(len(outer.parts), name or f"T{len(outer.parts)}", daemon=self.daemon)
                outer.parts.append(self.part)
                self.name = self.part.name

            def start(self):
                outer.point("thread.start", self.part.name)
                t = threading.Thread(target=outer._run_part, args=(self.part, self._target, self._args, self._kwargs), daemon=True)
                self.part.thread = t
                self.part.state = "ready"
                t.start()
                outer.point("thread.started", self.part.name)

            def join(self, timeout=None):
                part = self.part
                if part.state == "new":
                    raise RuntimeError("cannot join thread before it is started")
                return outer.block(lambda: part.state == "done", f"join({part.name})", timed=timeout is not None, timeout=timeout)

            def is_alive(self):
                return self.part.state not in ("new", "done")

        self.Thread = CThread

        class Empty(Exception):
            pass

        class Full(Exception):
            pass

        class CQueue:
            def __init__(self, maxsize=0):
                self.items = []
                self.name = f"q{id(self) % 9973}"
                self.unfinished = 0

            def put(self, item, block=True, timeout=None):
                outer.point("q.put", _short(item))
                self.items.append(item)
                self.unfinished += 1

            def put_nowait(self, item):
                return self.put(item, False)

            def get(self, block=True, timeout=None):
                outer.point("q.get", None)
                if not self.items:
                    if not block:
                        raise Empty()
                    r = outer.block(lambda: bool(self.items), "q.get", timed=timeout is not None)
                    if r == "timeout":
                        raise Empty()
                return self.items.pop(0)

            def get_nowait(self):
                return self.get(False)

            def empty(self):
                outer.point("q.empty", None)
                return not self.items

            def qsize(self):
                return len(self.items)

            def task_done(self):
                self.unfinished -= 1

        qmod = types.ModuleType("queue_under_scheduler")
        qmod.Queue = CQueue
        qmod.Empty = Empty
        qmod.Full = Full
        self.queue_module = qmod
        tmod = types.ModuleType("time_under_scheduler")
        tmod.time = self._time
        import time as _t

        tmod.sleep = lambda s: None
        tmod.monotonic = self._time
        self.time_module = tmod

    # ------------------------------------------------------------------------------------------
    def _time(self):
        self.clock += self.clock_step
        return self.clock

    def _me(self) -> Part:
        t = threading.current_thread()
        for p in self.parts:
            if p.thread is t:
                return p
        raise RuntimeError("thread unknown to the scheduler")

    def _enabled(self):
        out = []
        for p in self.parts:
            if p.state == "ready":
                out.append(p)
            elif p.state == "waiting" and p.pred is not None and p.pred():
                out.append(p)
            elif p.state == "waiting" and p.deadline is not None and self.clock >= p.deadline:
                out.append(p)  # its timeout has expired on the virtual clock
        return out

    def point(self, label, obj=None):
        """A visible operation of the running participant: the scheduler may switch here."""
        if self.aborting:
            raise SchedulerAbort()
        me = self._me()
        if me is not self.cur:
            return  # a thread the scheduler does not drive (must not happen); be inert
        self.points += 1
        if self.points > self.max_points:
            self.end_reason = "max_points"
            self._abort_all(me)
        self.trace.append((me.id, label, obj))
        me.state = "ready"
        self._dispatch(me, f"{me.name}:{label}")
        me.state = "running"

    def advance(self, seconds: float):
        """Virtual time passes (a handler that takes a while)."""
        self.clock += seconds

    def block(self, pred, label, timed=False, timeout=None):
        if self.aborting:
            raise SchedulerAbort()
        me = self._me()
        self.trace.append((me.id, "wait:" + label, None))
        if pred():
            self.point("nowait:" + label)
            return "ok"
        me.state = "waiting"
        me.pred = pred
        me.timed = timed
        me.timeout_fired = False
        me.wait_label = label
        # a join with a timeout really gives up once that much (virtual) time has passed, whoever is still busy
        me.deadline = (self.clock + timeout) if (timed and timeout is not None) else None
        self._dispatch(me, f"{me.name}:blocked:{label}")
        me.state = "running"
        me.pred = None
        if me.deadline is not None and self.clock >= me.deadline and not pred():
            me.timeout_fired = True
        me.deadline = None
        if me.timeout_fired:
            self.trace.append((me.id, "timeout:" + label, None))
            return "timeout"
        return "ok"

    def _dispatch(self, me: Part, label: str):
        """Pick who runs next; hand the baton over if it is not `me`; return when `me` runs again."""
        en = self._enabled()
        if me in en:
            order = [me] + [p for p in en if p is not me]
            cost = 1
        else:
            order = en
            cost = 0
        if not order:
            timed = [p for p in self.parts if p.state == "waiting" and p.timed]
            # the end of the world: main has returned and only daemons re-arming timed waits are left
            if self.main_done and all(p.daemon for p in timed) and not [p for p in self.parts if p.state in ("ready", "running") and p is not me]:
                self.end_reason = self.end_reason or "horizon"
                self._release_main_or_abort(me)
                return
            if not timed:
                self.deadlock = [(p.name, p.wait_label) for p in self.parts if p.state == "waiting"]
                self.end_reason = "deadlock"
                self._abort_all(me)
                return
            self.timeouts += 1
            if self.timeouts > 200:  # only timed waiters re-arming for ever: nobody will ever satisfy the untimed ones
                self.deadlock = [("livelock", p.name, p.wait_label) for p in self.parts if p.state == "waiting"]
                self.end_reason = "livelock"
                self._abort_all(me)
                return
            k = self.ch.choose(len(timed), "timeout-order", cost=0) if len(timed) > 1 else 0
            timed[k].timeout_fired = True
            timed[k].pred = lambda: True
            order = [timed[k]]
            cost = 0
        idx = self.ch.choose(len(order), label, cost=cost) if len(order) > 1 else 0
        nxt = order[idx]
        if cost and idx:
            self.preemptions += 1
        if nxt is me:
            return
        self.cur = nxt
        nxt.sem.release()
        if me.state != "done":
            if not me.sem.acquire(timeout=self.baton_timeout):
                # nobody handed the baton back: a participant died without passing it on (harness trouble, not a finding)
                self.end_reason = "lost-baton"
                self.harness_failure = f"baton lost while {me.name} waited at {label}"
                self._abort_all(me)
                return
            if self.aborting:
                raise SchedulerAbort()

    def _run_part(self, part: Part, target, args, kwargs):
        part.sem.acquire()
        if self.aborting:
            part.state = "done"
            return
        part.state = "running"
        if self.line_trace:
            sys.settrace(self._tracer)
        try:
            target(*args, **kwargs)
        except SchedulerAbort:
            part.state = "done"
            return
        except BaseException as ex:  # noqa
            part.exc = ex
            if type(ex).__name__ == "HarnessError":
                self.harness_failure = f"{part.name}: {ex}"
        finally:
            if self.line_trace:
                sys.settrace(None)
        part.state = "done"
        self.trace.append((part.id, "exit", None))
        if self.aborting:
            return
        try:
            self._dispatch(part, f"{part.name}:exit")
        except SchedulerAbort:
            pass

    def _tracer(self, frame, event, arg):
        if event != "call":
            return None
        if not self.trace_filter(frame.f_code.co_filename):
            return None
        return self._line

    def _line(self, frame, event, arg):
        if event == "line":
            self.point("line", (frame.f_code.co_name, frame.f_lineno))
        return self._line

    # ------------------------------------------------------------------------------------------
    def _abort_all(self, me: Part):
        self.aborting = True
        for p in self.parts:
            if p is not me and p.state not in ("done", "new"):
                p.sem.release()
        if me is not self.main:
            raise SchedulerAbort()

    def _release_main_or_abort(self, me: Part):
        """Execution over: wake the main thread (which is waiting in finish())."""
        self.aborting = True
        for p in self.parts:
            if p is not me and p.state not in ("done", "new"):
                p.sem.release()
        if me is not self.main:
            raise SchedulerAbort()

    def run_main(self, body):
        """Run body() as participant 0, then drain the other participants.  Returns (result, exception)."""
        res = exc = None
        try:
            res = body()
        except SchedulerAbort:
            exc = Deadlock(str(self.deadlock)) if self.deadlock else RuntimeError(self.end_reason or "aborted")
        except BaseException as ex:  # noqa
            exc = ex
        self.main_done = True
        self.returned_with_live_workers = [p.name for p in self.parts if p.state not in ("done", "new") and not p.daemon and p is not self.main]
        if not self.aborting:
            # let everybody else run to completion (or to the horizon)
            self.main.state = "waiting"
            self.main.pred = lambda: all(p.state in ("done", "new") for p in self.parts if p is not self.main and not p.daemon) and not self._enabled_others()
            self.main.timed = False
            self.main.wait_label = "drain"
            try:
                self._dispatch(self.main, "main:drain")
            except SchedulerAbort:
                pass
        self.shutdown()
        return res, exc

    def _enabled_others(self):
        out = []
        for p in self.parts:
            if p is self.main:
                continue
            if p.state == "ready" or (p.state == "waiting" and p.pred is not None and p.pred()):
                out.append(p)
        return out

    def shutdown(self):
        self.aborting = True
        for p in self.parts:
            if p is not self.main and p.state not in ("done", "new"):
                p.sem.release()
        for p in self.parts:
            if p is not self.main and p.thread is not None:
                p.thread.join(2.0)
        self.leaked = [p.name for p in self.parts if p is not self.main and p.thread is not None and p.thread.is_alive()]


def _short(item):
    if isinstance(item, tuple):
        return tuple(str(x)[:30] for x in item[:2])
    return str(item)[:30]
