"""Shared archive production: a *case* (plain dict) describes one write session of the py7zr under
test; `produce` runs it and returns the bytes plus the reference model (the member list asked for).
Used by C01 (round trip), C07 (strict reference read), C10 (listings), C04/C05 (bases)."""
from __future__ import annotations

import io
import os
import shutil

from mc.gen import chains, content
from mc.lib7z import install_key_cache, seams

NAME_CLASSES = ["ascii", "dot", "space", "ctrl", "bmp", "astral", "drive", "deep6", "long255"]


def name_of(cls: str, idx: int = 0) -> str:
    i = str(idx)
    return {
        "ascii": "file" + i + ".txt",
        "dot": ".hidden" + i,
        "space": " sp ace " + i + " ",
        "ctrl": "c\x01t\x1fr\x07l" + i,
        "bmp": "ファイル-éß-" + i,
        "astral": "\U0001F600\U00010348-" + i,
        "drive": "c:" + i + "/x",
        "deep6": "d1/d2/d3/d4/d5/leaf" + i,
        "long255": ("L" * (255 - len(i))) + i,
    }[cls]


def materialize(case: dict):
    """-> [(name, bytes)]"""
    out = []
    for k, m in enumerate(case["members"]):
        name, tex, size = m[0], m[1], m[2]
        seed = m[3] if len(m) > 3 else k + 1
        if name.startswith("@"):
            name = name_of(name[1:], k)
        out.append((name, content.make(tex, size, seed + case.get("seed", 0) * 1000)))
    return out


def default_case(**kw) -> dict:
    c = {"chain": "LZMA2", "members": [("@ascii", "random", 33)], "header": "encoded", "target": "bytesio", "block": None, "chunk": None,
         "via": "writestr", "params": {}, "seed": 0}
    c.update(kw)
    return c


PASSWORD = "pässw0rd-パス-\U0001F511"  # Latin-1, kana and an astral character: every UTF-16 encoding class goes through both key derivations


def password_of(case: dict):
    if "password" in case:
        return case["password"]
    return PASSWORD if (chains.needs_password(case["chain"]) or case["header"] == "encrypted") else None


def produce(case: dict, workdir: str):
    """Run the write session.  Returns dict(blob, path, members, volumes, target)."""
    import multivolumefile

    import py7zr

    install_key_cache()
    members = materialize(case)
    pw = password_of(case)
    filters = chains.py_filters(case["chain"], **case.get("params", {}))
    target = case["target"]
    os.makedirs(workdir, exist_ok=True)
    path = os.path.join(workdir, "t.7z")
    for f in os.listdir(workdir):
        if f.startswith("t.7z"):
            os.remove(os.path.join(workdir, f))
    volumes = None
    with seams(block=case.get("block"), chunk=case.get("chunk")):
        mv = None
        fobj = None
        if target == "bytesio":
            tgt = io.BytesIO()
        elif target == "path":
            tgt = path
        elif target == "fileobj":
            fobj = open(path, "w+b")
            tgt = fobj
        elif target.startswith("mv"):
            mv = multivolumefile.open(path, mode="wb", volume=int(target[2:]))
            tgt = mv
        else:
            raise ValueError(target)
        try:
            kw = {}
            if case.get("ctor_header_encryption"):
                kw["header_encryption"] = True
            # open mode: 'w', or the documented exclusive-create mode 'x' (for a target given by name)
            z = py7zr.SevenZipFile(tgt, case.get("mode", "w") if target == "path" else "w", filters=filters, password=pw, **kw)
            with z:
                if case["header"] == "raw":
                    z.set_encoded_header_mode(False)
                elif case["header"] == "encrypted" and not case.get("ctor_header_encryption"):
                    z.set_encrypted_header(True)
                for name, data in members:
                    if case["via"] == "writestr":
                        z.writestr(data, name)
                    else:
                        z.writef(io.BytesIO(data), name)
        finally:
            if fobj is not None:
                fobj.close()
            if mv is not None:
                mv.close()
    if target == "bytesio":
        blob = tgt.getvalue()
        rpath = None
    elif target.startswith("mv"):
        volumes = sorted(f for f in os.listdir(workdir) if f.startswith("t.7z."))
        blob = b"".join(open(os.path.join(workdir, v), "rb").read() for v in volumes)
        rpath = path
    else:
        blob = open(path, "rb").read()
        rpath = path
    return {"blob": blob, "path": rpath, "members": members, "volumes": volumes, "password": pw, "target": target}


def open_for_read(prod: dict, case: dict, how: str | None = None):
    """Returns (SevenZipFile, closer) reading the produced archive the way its target kind implies."""
    import multivolumefile

    import py7zr

    target = how or prod["target"]
    pw = prod["password"]
    if target == "bytesio":
        return py7zr.SevenZipFile(io.BytesIO(prod["blob"]), "r", password=pw), None
    if target == "path":
        return py7zr.SevenZipFile(prod["path"], "r", password=pw), None
    if target == "fileobj":
        f = open(prod["path"], "rb")
        return py7zr.SevenZipFile(f, "r", password=pw), f
    if target.startswith("mv"):
        mv = multivolumefile.open(prod["path"], mode="rb")
        return py7zr.SevenZipFile(mv, "r", password=pw), mv
    raise ValueError(target)


def fresh_dir(name: str) -> str:
    d = os.path.join(os.getcwd(), name)
    shutil.rmtree(d, ignore_errors=True)
    os.makedirs(d)
    return d
