"""Small valid base archives (200..600 bytes) for the damage / robustness / crash enumerations."""
from __future__ import annotations

import io
import os

from mc.gen import chains, content
from mc.lib7z import fixed_random, install_key_cache
from mc.ref import ref7z

PW = "pw"


def _members(k: int = 3):
    ms = [("alpha.txt", content.make("repetitive", 41, 1)), ("dir/beta.bin", content.make("random", 23, 2)),
          ("gamma", content.make("x86", 57, 3))]
    return ms[:k]


ZERO_CRC = b"payload-with-zero-crc:\xf3\x13\xd6\xd3"  # zlib.crc32(...) == 0: a stored digest that is falsy


def zero_base(chain: str, header: str):
    """Like py_base, but the middle member's CRC32 is exactly 0."""
    import zlib

    import py7zr

    assert zlib.crc32(ZERO_CRC) == 0
    ms = _members(3)
    ms[1] = ("dir/zero.bin", ZERO_CRC)
    bio = io.BytesIO()
    with fixed_random("zero"), py7zr.SevenZipFile(bio, "w", filters=chains.py_filters(chain)) as z:
        _hdr(z, header)
        for n, d in ms:
            z.writestr(d, n)
    return _finish(f"py:{chain}:{header}:zerocrc", bio.getvalue(), None, ms)


def py_base(chain: str, header: str, folders: int = 1, tmpdir: str | None = None):
    import py7zr

    install_key_cache()
    pw = PW if (chains.needs_password(chain) or header == "encrypted") else None
    with fixed_random(f"base:{chain}:{header}:{folders}"):
        return _py_base(chain, header, folders, pw)


def _py_base(chain, header, folders, pw):
    import py7zr

    ms = _members(3)
    if folders == 1:
        bio = io.BytesIO()
        with py7zr.SevenZipFile(bio, "w", filters=chains.py_filters(chain), password=pw) as z:
            _hdr(z, header)
            for n, d in ms:
                z.writestr(d, n)
        blob = bio.getvalue()
    else:
        bio = io.BytesIO()
        for k in range(folders):
            bio.seek(0)
            with py7zr.SevenZipFile(bio, "w" if k == 0 else "a", filters=chains.py_filters(chain), password=pw) as z:
                _hdr(z, header)
                n, d = ms[k % len(ms)]
                z.writestr(d, f"s{k}/{n}")
                if k == 1:
                    z.writestr(ms[0][1][:9], f"s{k}/second")
        blob = bio.getvalue()
        ms = []
        base = _members(3)
        for k in range(folders):
            n, d = base[k % 3]
            ms.append((f"s{k}/{n}", d))
            if k == 1:
                ms.append((f"s{k}/second", base[0][1][:9]))
    return _finish(f"py:{chain}:{header}:{folders}f", blob, pw, ms)


def _hdr(z, header):
    if header == "raw":
        z.set_encoded_header_mode(False)
    elif header == "encrypted":
        z.set_encrypted_header(True)


def link_base(chain: str = "COPY"):
    """py7zr-written tree with a symbolic link member (its link text is member data protected by a CRC like any other)."""
    import shutil
    import tempfile

    import py7zr

    td = tempfile.mkdtemp(prefix="c04l", dir="/dev/shm")
    old = os.getcwd()
    try:
        os.makedirs(os.path.join(td, "x"))
        for n, d in (("a.txt", b"alpha-member-" * 3), ("c.txt", b"gamma-member-" * 2)):
            with open(os.path.join(td, "x", n), "wb") as f:
                f.write(d)
        os.symlink("a.txt", os.path.join(td, "x", "link"))
        ns = 1_600_000_000_000_000_000
        for n in ("x/a.txt", "x/c.txt", "x"):
            os.utime(os.path.join(td, n), ns=(ns, ns))
        os.utime(os.path.join(td, "x", "link"), ns=(ns, ns), follow_symlinks=False)
        os.chdir(td)
        bio = io.BytesIO()
        with fixed_random("link"), py7zr.SevenZipFile(bio, "w", filters=chains.py_filters(chain)) as z:
            z.set_encoded_header_mode(False)
            z.writeall("x")
    finally:
        os.chdir(old)
        shutil.rmtree(td, ignore_errors=True)
    r = ref7z.read(bio.getvalue(), strict=False)
    ms = [(m["name"], m["data"]) for m in r["members"] if m["kind"] != "dir"]
    return _finish(f"py:{chain}:raw:symlink", bio.getvalue(), None, ms)


def ref_base(name: str, layout: dict, password=None):
    ms = _members(3)
    members = [{"name": n, "kind": "file", "data": d, "mtime": 132223104000000000 + i, "attr": 0x20} for i, (n, d) in enumerate(ms)]
    blob = ref7z.write(members, layout, password=password)
    return _finish("ref:" + name, blob, password, ms)


def _finish(name, blob, pw, ms):
    r = ref7z.read(blob, password=pw, strict=False, decode=False)
    a = 32 + r["header"].get("packpos", 0)
    b = 32 + r["header"]["ofs"]
    # has_crc: every member is protected by a stored CRC (C04/C19 quantify over such archives only; C05 takes all)
    return {"name": name, "blob": blob, "password": pw, "pristine": ms, "packed": (a, b), "has_crc": "nocrc" not in name}


def all_bases(tier: str):
    out = []
    quick = [("COPY", "raw", 1), ("LZMA2", "encoded", 1), ("LZMA2", "raw", 3), ("BZIP2", "raw", 1), ("DEFLATE", "encoded", 1), ("ZSTD", "raw", 1),
             ("PPMD", "raw", 1), ("X86+LZMA", "encoded", 1), ("COPY+AES", "raw", 1), ("LZMA2+AES", "encrypted", 1), ("COPY", "encoded", 2)]
    if tier == "quick":
        specs = quick
    else:
        specs = []
        for c in chains.FAMILIES + chains.FAMILIES_AES:
            for h in ("raw", "encoded") + (("encrypted",) if "AES" in c else ()):
                specs.append((c, h, 1))
            if "DEFLATE64" not in c:  # py7zr documents that appending with Deflate64 is not supported
                specs.append((c, "raw", 3))
        specs += [("COPY", "encoded", 2), ("LZMA2", "encoded", 4)]
    for c, h, f in specs:
        out.append(py_base(c, h, f))
    out.append(zero_base("COPY", "raw"))
    out.append(link_base("COPY"))
    if tier != "quick":
        out.append(zero_base("LZMA2", "encoded"))
        out.append(zero_base("BZIP2", "raw"))
    C = [("COPY", {})]
    Z = [("LZMA2", {})]
    refs = [
        ("copy-2f-foldercrc-packcrc", {"folders": [[0], [1, 2]], "chains": [C, C], "crc": "folder", "pack_crc": True, "numunpack_omit": False}, None),
        ("lzma2-2f-lzmahdr", {"folders": [[0, 1], [2]], "chains": [Z, Z], "header": "lzma", "crc": "substream"}, None),
        # packed-stream CRCs defined for some streams only: test() can vouch for those, not for the archive
        ("copy-2f-packcrc-partial", {"folders": [[0], [1, 2]], "chains": [C, C], "crc": "substream", "pack_crc": "partial"}, None),
        # several NATIVE coders in one folder (py7zr decodes them with a single liblzma chain) and folder-level CRCs only
        ("delta-lzma2-2f-foldercrc", {"folders": [[0], [1, 2]], "chains": [[("DELTA", {}), ("LZMA2", {})]] * 2, "crc": "folder"}, None),
        # the ciphertext is the only transformation and a folder-level CRC the only integrity data
        ("aesonly-2f-foldercrc", {"folders": [[0], [1, 2]], "chains": [[("AES", {})]] * 2, "crc": "folder", "aes": {"cycles": 4, "salt": b"", "iv": bytes(range(1, 9))}}, PW),
    ]
    if tier != "quick":
        refs += [
            ("copy-1f-nocrc", {"folders": [[0, 1, 2]], "chains": [C], "crc": "none"}, None),
            ("copy-3f-both-gap", {"folders": [[0], [1], [2]], "chains": [C, C, C], "crc": "both", "packpos": 7, "pack_crc": True}, None),
            ("aes4-copy", {"folders": [[0, 1, 2]], "chains": [[("COPY", {}), ("AES", {})]], "crc": "substream"}, PW),
            ("aes4-lzma2-aeshdr", {"folders": [[0, 1], [2]], "chains": [[("LZMA2", {}), ("AES", {})]] * 2, "header": "lzma2+aes"}, PW),
            ("bzip2-2f-dummy", {"folders": [[0, 1], [2]], "chains": [[("BZIP2", {})]] * 2, "dummy": 5, "header": "lzma2", "header_crc": False}, None),
            ("x86lzma-1f", {"folders": [[0, 1, 2]], "chains": [[("X86", {}), ("LZMA", {})]], "header": "copy"}, None),
        ]
    for n, L, pw in refs:
        out.append(ref_base(n, L, pw))
    return out
