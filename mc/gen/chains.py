"""Filter chains: names <-> py7zr filter lists <-> ref7z chains.  The list of chains that the pinned
tree constructs is frozen in chains_frozen.json (114 entries), so a later change that starts rejecting
one of them shows up as a violation rather than silently shrinking the space."""
from __future__ import annotations

import json
import os

_HERE = os.path.dirname(os.path.abspath(__file__))
ALL = json.load(open(os.path.join(_HERE, "chains_frozen.json")))

# the chains docs/api.rst lists under "Possible filters value"
DOCUMENTED = ["LZMA2", "DELTA+LZMA2", "X86+LZMA2", "ARM+LZMA2", "LZMA", "BZIP2", "DEFLATE", "ZSTD", "PPMD", "BROTLI", "COPY",
              "LZMA2+AES", "X86+LZMA2+AES", "BZIP2+AES", "DEFLATE+AES", "ZSTD+AES", "AES"]

# one representative per decoder implementation path
FAMILIES = ["COPY", "LZMA2", "LZMA", "DELTA+LZMA2", "X86+LZMA2", "X86+LZMA", "BZIP2", "DEFLATE", "DEFLATE64", "ZSTD", "PPMD", "BROTLI",
            "X86+BZIP2", "ARM+COPY", "IA64+LZMA2", "DELTA+X86+LZMA2"]
FAMILIES_AES = [f + "+AES" for f in FAMILIES if f + "+AES" in ALL] + ["AES"]
CHEAP = ["COPY", "LZMA2", "BZIP2", "DEFLATE", "ZSTD", "X86+LZMA2", "PPMD"]


def py_filters(name: str, **over):
    from py7zr.properties import (FILTER_ARM, FILTER_ARMTHUMB, FILTER_BROTLI, FILTER_BZIP2, FILTER_COPY, FILTER_CRYPTO_AES256_SHA256,
                                  FILTER_DEFLATE, FILTER_DEFLATE64, FILTER_DELTA, FILTER_IA64, FILTER_LZMA, FILTER_LZMA2, FILTER_POWERPC,
                                  FILTER_PPMD, FILTER_SPARC, FILTER_X86, FILTER_ZSTD)

    table = {
        "DELTA": {"id": FILTER_DELTA}, "X86": {"id": FILTER_X86}, "ARM": {"id": FILTER_ARM}, "ARMT": {"id": FILTER_ARMTHUMB},
        "PPC": {"id": FILTER_POWERPC}, "SPARC": {"id": FILTER_SPARC}, "IA64": {"id": FILTER_IA64},
        "LZMA2": {"id": FILTER_LZMA2, "preset": 1}, "LZMA": {"id": FILTER_LZMA, "preset": 1}, "BZIP2": {"id": FILTER_BZIP2},
        "DEFLATE": {"id": FILTER_DEFLATE}, "DEFLATE64": {"id": FILTER_DEFLATE64}, "COPY": {"id": FILTER_COPY},
        "ZSTD": {"id": FILTER_ZSTD, "level": 3}, "PPMD": {"id": FILTER_PPMD, "order": 6, "mem": "16m"},
        "BROTLI": {"id": FILTER_BROTLI, "level": 5}, "AES": {"id": FILTER_CRYPTO_AES256_SHA256},
    }
    out = []
    for part in name.split("+"):
        f = dict(table[part])
        f.update(over.get(part, {}))
        out.append(f)
    return out


def needs_password(name: str) -> bool:
    return "AES" in name.split("+")


def ref_chain(name: str):
    return [(part, {}) for part in name.split("+")]


def has_bcj(name: str) -> bool:
    return any(p in ("X86", "ARM", "ARMT", "PPC", "SPARC", "IA64") for p in name.split("+"))


def codec_library_defect(name: str, data: bytes, block: int | None = None, **over):
    """The delegated codec libraries are not py7zr.  For chains built from stand-alone codec objects (everything
    except the single native liblzma chain) this replays, WITHOUT any py7zr code, the call pattern py7zr uses on the
    raw libraries - source read block by block, each block through every encoder object in turn, then the flush
    cascade - and decodes the result stage by stage with the same libraries.  Returns a description when that pure
    library pipeline does not reproduce the input (then no container code could succeed); None otherwise."""
    import bz2
    import zlib

    parts = [p for p in name.split("+") if p != "AES"]
    filters = [f for p, f in zip(name.split("+"), py_filters(name, **over)) if p != "AES"]
    if not parts or all(p in ("LZMA", "LZMA2", "DELTA", "X86", "ARM", "ARMT", "PPC", "SPARC", "IA64") for p in parts) and "LZMA2" in parts:
        return None  # one native liblzma raw chain
    if any(p in ("LZMA", "LZMA2", "DELTA", "IA64") for p in parts):
        return None
    block = block or 1048576
    import bcj as _bcj

    bcjmap = {"X86": ("BCJEncoder", "BCJDecoder"), "ARM": ("ARMEncoder", "ARMDecoder"), "ARMT": ("ARMTEncoder", "ARMTDecoder"),
              "PPC": ("PPCEncoder", "PPCDecoder"), "SPARC": ("SparcEncoder", "SparcDecoder")}
    encs = []
    for p, f in zip(parts, filters):
        if p in bcjmap:
            o = getattr(_bcj, bcjmap[p][0])()
            encs.append((p, o.encode, o.flush, f))
        elif p == "PPMD":
            import pyppmd

            mem = f.get("mem", 24)
            mem = ((1 << int(mem)) if mem.isdecimal() else int(mem[:-1]) << {"m": 20, "k": 10, "b": 0}[mem[-1].lower()]) if isinstance(mem, str) else 1 << mem
            f = dict(f, _mem=mem)
            o = pyppmd.Ppmd7Encoder(f.get("order", 6), mem)
            encs.append((p, o.encode, o.flush, f))
        elif p == "BZIP2":
            o = bz2.BZ2Compressor()
            encs.append((p, o.compress, o.flush, f))
        elif p == "DEFLATE":
            o = zlib.compressobj(wbits=-15)
            encs.append((p, o.compress, o.flush, f))
        elif p == "ZSTD":
            import pyzstd

            o = pyzstd.ZstdCompressor(f.get("level", 3))
            encs.append((p, o.compress, o.flush, f))
        elif p == "COPY":
            encs.append((p, bytes, lambda: b"", f))
        else:
            return None  # Brotli / Deflate64: not replayed
    sizes = [0] * len(encs)
    out = bytearray()
    try:
        for i in range(0, len(data), block):
            d = data[i : i + block]
            for k, (p, enc, fl, f) in enumerate(encs):
                sizes[k] += len(d)
                d = enc(d)
            out += d
        d = None
        for k, (p, enc, fl, f) in enumerate(encs):
            if d:
                sizes[k] += len(d)
                d = enc(d) + fl()
            else:
                d = fl()
        out += d or b""
        stage = bytes(out)
        for k in range(len(encs) - 1, -1, -1):
            p, _, _, f = encs[k]
            n = sizes[k]
            if p in bcjmap:
                dec = getattr(_bcj, bcjmap[p][1])(n)
                stage = dec.decode(stage) + dec.decode(b"")
            elif p == "PPMD":
                import pyppmd

                dd = pyppmd.Ppmd7Decoder(f.get("order", 6), f["_mem"])
                res = bytearray(dd.decode(stage, n)) if n else bytearray()
                g = 0
                while len(res) < n and g < 64:
                    res += dd.decode(b"\0" if dd.needs_input else b"", n - len(res))
                    g += 1
                stage = bytes(res)
            elif p == "BZIP2":
                stage = bz2.BZ2Decompressor().decompress(stage)
            elif p == "DEFLATE":
                o = zlib.decompressobj(wbits=-15)
                stage = o.decompress(stage) + o.flush()
            elif p == "ZSTD":
                import pyzstd

                stage = pyzstd.ZstdDecompressor().decompress(stage)
            if len(stage) != n:
                return f"{p} library returns {len(stage)} of {n} bytes for its own output (chain {name}, pure library pipeline)"
    except Exception as ex:
        return f"pure library pipeline for {name} raises {type(ex).__name__}: {ex}"
    if stage != data:
        return f"pure library pipeline for {name} (no py7zr code involved) does not reproduce the input"
    return None
