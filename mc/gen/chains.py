"""Filter chains: names <-> py7zr filter lists <-> ref7z chains.  The list of chains that the pinned
tree constructs is frozen in chains_frozen.json (114 entries), so a later change that starts rejecting
one of them shows up as a violation rather than silently shrinking the space."""
from __future__ import annotations

import json
import os

_HERE = os.path.dirname(os.path.abspath(__file__))
ALL = json.load(open(os.path.join(_HERE, "chains_frozen.json")))

# the chains docs/api.rst lists under "Possible filters value"
DOCUMENTED = ["LZMA2", "DELTA+LZMA2", "X86+LZMA2", "ARM+LZMA2", "LZMA", "BZIP2", "DEFLATE", "ZSTD", "PPMD", "BROTLI", "COPY",
              "LZMA2+AES", "X86+LZMA2+AES", "BZIP2+AES", "DEFLATE+AES", "ZSTD+AES", "AES"]

# one representative per decoder implementation path
FAMILIES = ["COPY", "LZMA2", "LZMA", "DELTA+LZMA2", "X86+LZMA2", "X86+LZMA", "BZIP2", "DEFLATE", "DEFLATE64", "ZSTD", "PPMD", "BROTLI",
            "X86+BZIP2", "ARM+COPY", "IA64+LZMA2", "DELTA+X86+LZMA2"]
FAMILIES_AES = [f + "+AES" for f in FAMILIES if f + "+AES" in ALL] + ["AES"]
CHEAP = ["COPY", "LZMA2", "BZIP2", "DEFLATE", "ZSTD", "X86+LZMA2", "PPMD"]


def py_filters(name: str, **over):
    from py7zr.properties import (FILTER_ARM, FILTER_ARMTHUMB, FILTER_BROTLI, FILTER_BZIP2, FILTER_COPY, FILTER_CRYPTO_AES256_SHA256,
                                  FILTER_DEFLATE, FILTER_DEFLATE64, FILTER_DELTA, FILTER_IA64, FILTER_LZMA, FILTER_LZMA2, FILTER_POWERPC,
                                  FILTER_PPMD, FILTER_SPARC, FILTER_X86, FILTER_ZSTD)

    table = {
        "DELTA": {"id": FILTER_DELTA}, "X86": {"id": FILTER_X86}, "ARM": {"id": FILTER_ARM}, "ARMT": {"id": FILTER_ARMTHUMB},
        "PPC": {"id": FILTER_POWERPC}, "SPARC": {"id": FILTER_SPARC}, "IA64": {"id": FILTER_IA64},
        "LZMA2": {"id": FILTER_LZMA2, "preset": 1}, "LZMA": {"id": FILTER_LZMA, "preset": 1}, "BZIP2": {"id": FILTER_BZIP2},
        "DEFLATE": {"id": FILTER_DEFLATE}, "DEFLATE64": {"id": FILTER_DEFLATE64}, "COPY": {"id": FILTER_COPY},
        "ZSTD": {"id": FILTER_ZSTD, "level": 3}, "PPMD": {"id": FILTER_PPMD, "order": 6, "mem": "16m"},
        "BROTLI": {"id": FILTER_BROTLI, "level": 5}, "AES": {"id": FILTER_CRYPTO_AES256_SHA256},
    }
    out = []
    for part in name.split("+"):
        f = dict(table[part])
        f.update(over.get(part, {}))
        out.append(f)
    return out


def needs_password(name: str) -> bool:
    return "AES" in name.split("+")


def ref_chain(name: str):
    return [(part, {}) for part in name.split("+")]


def has_bcj(name: str) -> bool:
    return any(p in ("X86", "ARM", "ARMT", "PPC", "SPARC", "IA64") for p in name.split("+"))
