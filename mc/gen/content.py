"""Deterministic member contents by (texture, size, seed)."""
from __future__ import annotations

import functools
import hashlib
import os

_X86 = None


def _x86():
    global _X86
    if _X86 is None:
        p = os.path.join(os.environ.get("VP_REPO", "/repo"), "tests", "data", "x86.bin")
        try:
            _X86 = open(p, "rb").read()
        except OSError:
            _X86 = b""
        if len(_X86) < 64:
            # call/jmp rel32 heavy filler
            _X86 = b"".join(b"\xe8" + (i * 37 & 0xFFFFFFFF).to_bytes(4, "little") + b"\x90\xe9" + (i * 101 & 0xFFFFFFFF).to_bytes(4, "little") for i in range(4096))
    return _X86


@functools.lru_cache(maxsize=256)
def make(texture: str, size: int, seed: int = 0) -> bytes:
    if size == 0:
        return b""
    if texture == "zeros":
        return bytes(size)
    if texture == "period3":
        return (b"abc" * (size // 3 + 1))[:size]
    if texture == "repetitive":
        unit = b"The quick brown fox jumps over the lazy dog. " + bytes([seed & 0xFF])
        return (unit * (size // len(unit) + 1))[:size]
    if texture == "x86":
        x = _x86()
        off = (seed * 131) % max(1, len(x) - 1)
        return ((x[off:] + x) * (size // len(x) + 1))[:size]
    if texture == "random":
        out = bytearray()
        ctr = 0
        key = seed.to_bytes(8, "little", signed=False)
        while len(out) < size:
            out += hashlib.blake2b(ctr.to_bytes(8, "little"), key=key, digest_size=64).digest()
            ctr += 1
        return bytes(out[:size])
    if texture == "marker":  # recognisable plaintext for C11
        unit = b"PLAINTEXT-MARKER-%04d-<<" % (seed % 10000) + b"0123456789abcdefghijklmnopqrstuvwxyz"
        return (unit * (size // len(unit) + 1))[:size]
    raise ValueError(texture)
