"""Structure-aware header mutations for C05: every single-token mutation of the ref7z token stream of a
header, plus section drop / duplicate / swap; all outer CRCs are re-sealed so that the parser is entered."""
from __future__ import annotations

import copy

from mc.ref import ref7z

NUM_VALUES = sorted({0, 1, (1 << 32) - 1, 1 << 32, (1 << 63) - 1, 1 << 63, (1 << 64) - 1} | {(1 << (7 * k)) - 1 for k in range(1, 9)} | {1 << (7 * k) for k in range(1, 9)})
SECTIONS = ["Main.PackInfo", "Main.UnpackInfo", "Main.SubStreams", "Files.emptystream", "Files.emptyfile", "Files.dummy", "Files.names",
            "Files.ctime", "Files.atime", "Files.mtime", "Files.attr", "Main", "Files"]
SKIP_RAW = ("props",)  # codec dictionary / model sizes are the codec's own business (a 4 GiB LZMA dictionary is a legal declaration)


def base_archives():
    """(name, members, layout, password) whose headers are mutated."""
    def m(name, kind, data, **kw):
        d = {"name": name, "kind": kind, "data": data, "mtime": 132223104000000000, "attr": ref7z.unix_attr("dir" if kind == "dir" else "file", 0o755 if kind == "dir" else 0o644)}
        d.update(kw)
        return d

    files = [m("a.txt", "file", b"alpha-" * 6), m("d", "dir", None), m("d/b.bin", "file", bytes(range(40))), m("e", "emptyfile", b""), m("z", "file", b"zz" * 9, mtime=None)]
    C, Z = [("COPY", {})], [("LZMA2", {})]
    return [
        ("solid-copy", files, {"folders": [[0, 2, 4]], "chains": [C]}, None),
        ("two-folders", files, {"folders": [[0], [2, 4]], "chains": [C, Z]}, None),
        ("foldercrc-packcrc", files, {"folders": [[0], [2, 4]], "chains": [C, C], "crc": "folder", "pack_crc": True, "numunpack_omit": False}, None),
        ("both-crc-gap-dummy", files, {"folders": [[0], [2], [4]], "chains": [C, Z, C], "crc": "both", "packpos": 5, "dummy": 3}, None),
        ("nocrc-noshortcut", files, {"folders": [[0, 2, 4]], "chains": [Z], "crc": "none", "alldef_shortcut": False}, None),
        ("lzma-header", files, {"folders": [[0, 2, 4]], "chains": [Z], "header": "lzma"}, None),
        ("bcj-lzma", files, {"folders": [[0, 2, 4]], "chains": [[("X86", {}), ("LZMA", {})]]}, None),
        ("aes", files, {"folders": [[0, 2, 4]], "chains": [[("COPY", {}), ("AES", {})]]}, "pw"),
        ("aes-header", files, {"folders": [[0, 2, 4]], "chains": [C], "header": "lzma2+aes"}, "pw"),
        ("only-empty", [files[1], files[3]], {}, None),
        ("two-plain-files", [files[0], files[2]], {"folders": [[0, 1]], "chains": [C]}, None),  # no empty-stream section between NumFiles and the names
        ("single-file-folders-explicit-counts", files, {"folders": [[0], [2], [4]], "chains": [C, C, Z], "numunpack_omit": False, "crc": "folder"}, None),
    ]


_HEADER_LEN = {"n": 0}


def _mutations_of(tok):
    kind, v, path = tok
    out = []
    if kind == "num":
        # besides the powers of two: counts of the order of what a header of this length could just about describe
        # (a bound of the form "count <= c * len(header)" lets these through; the cost per claimed item then decides)
        L = _HEADER_LEN["n"]
        out = [x for x in sorted(set(NUM_VALUES) | ({L, 8 * L} if L else set())) if x != v]
    elif kind == "id":
        out = [x for x in range(0, 27) if x != v] + [0xFF]
    elif kind == "byte":
        out = [v ^ (1 << b) for b in range(8)] + ([0xFF] if v != 0xFF else [])
    elif kind == "u32":
        out = [x for x in (0, 1, 0xFFFFFFFF, v ^ 1) if x != v]
    elif kind == "u64":
        out = [x for x in (0, 1, (1 << 64) - 1, v ^ 1) if x != v]
    elif kind == "bits":
        out = [[(not b) if i == j else b for i, b in enumerate(v)] for j in range(min(len(v), 16))] + [[True] * len(v), [False] * len(v)]
        out = [x for x in out if x != v]
    elif kind == "raw":
        if any(s in path for s in SKIP_RAW) and "AES" not in path:
            return []
        if ".method" in path:
            out = [b"", b"\x00", b"\x21", b"\x03\x01\x01", b"\x06\xf1\x07\x01", b"\x03\x03\x01\x1b", b"\xff" * len(v), v[:-1]]
        elif "names[" in path:
            out = [b"\x00\x00", v[:-2], v[:-2] + b"\x41\x00" * 40 + b"\x00\x00", b"\x00\xd8" + v[2:], v[:-2] + b"/\x00.\x00.\x00\x00\x00"]
        elif "zeros" in path:
            out = [b"\xff" * len(v), b""]
        else:
            out = [bytes(len(v)), b"\xff" * len(v), v[:-1], v + b"\x00"]
        out = [x for x in out if x != v]
    return out


def _resize(tokens):
    """Patch every FilesInfo property size token to the real size of that property's body."""
    toks = copy.deepcopy(tokens)
    i = 0
    while i < len(toks):
        k, v, p = toks[i]
        if k == "num" and p.startswith("Files.") and p.endswith(".size") and p.count(".") == 2:
            prop = p[: -len(".size")]
            j = i + 1
            body = []
            while j < len(toks) and toks[j][2].startswith(prop) and toks[j][2] != prop:
                body.append(toks[j])
                j += 1
            toks[i][1] = len(ref7z.assemble(body))
        i += 1
    return toks


def header_mutants(tokens):
    """Yield (label, token list)."""
    try:
        _HEADER_LEN["n"] = len(ref7z.assemble(tokens))
    except Exception:
        _HEADER_LEN["n"] = 0
    for i, tok in enumerate(tokens):
        for mv in _mutations_of(tok):
            t = copy.deepcopy(tokens)
            t[i][1] = mv
            label = f"{tok[2]}:{tok[0]}={mv if not isinstance(mv, (bytes, list)) else (mv.hex()[:16] if isinstance(mv, bytes) else 'bits')}"
            yield label, t
            if tok[2].startswith("Files.") and tok[0] in ("raw", "bits", "byte") and not tok[2].endswith(".size"):
                yield label + "+resized", _resize(t)
    for sec in SECTIONS:
        idx = [i for i, t in enumerate(tokens) if t[2] == sec or t[2].startswith(sec + ".") or t[2].startswith(sec + "[")]
        if not idx:
            continue
        a, b = idx[0], idx[-1] + 1
        yield f"drop:{sec}", tokens[:a] + tokens[b:]
        yield f"dup:{sec}", tokens[:b] + copy.deepcopy(tokens[a:b]) + tokens[b:]
        nxt = [s for s in SECTIONS if s != sec and not s.startswith(sec) and not sec.startswith(s)]
        for other in nxt:
            jdx = [i for i, t in enumerate(tokens) if t[2] == other or t[2].startswith(other + ".") or t[2].startswith(other + "[")]
            if jdx and jdx[0] == b:
                c = jdx[-1] + 1
                yield f"swap:{sec}<->{other}", tokens[:a] + tokens[b:c] + tokens[a:b] + tokens[c:]


def build(name_members_layout_pw):
    name, members, layout, pw = name_members_layout_pw
    blob, tokens = ref7z.write(members, layout, password=pw, want_tokens=True)
    L = dict(ref7z.DEFAULT_LAYOUT)
    L.update(layout)
    r = ref7z.read(blob, password=pw, strict=False, decode=False)
    if r["header"]["kind"] == "encoded":
        body_end = 32 + r["header"]["packpos"]
    else:
        body_end = 32 + r["header"]["ofs"]
    body = blob[32:body_end]
    return {"name": name, "blob": blob, "tokens": [list(t) for t in tokens], "body": body, "layout": L, "password": pw}


def outer_tokens(base):
    """Token stream of the EncodedHeader streams info (empty for a raw header)."""
    cap = []

    def grab(t):
        cap.append(copy.deepcopy(t))
        return t

    ref7z.seal(base["body"], ref7z.assemble(base["tokens"]), base["layout"], base["password"], outer_edit=grab)
    return cap[0] if cap else []


PAIR_NUMS = (1 << 32, (1 << 63) - 1)


def pair_mutants(tokens, all_ids: bool):
    """Two deviations: one NUMBER token made huge AND one property id replaced (quick: by End only; thorough: by
    every id) - a count that loses the section which would have bounded it."""
    nums = [i for i, t in enumerate(tokens) if t[0] == "num" and not t[2].startswith("Files.") or (t[0] == "num" and t[2] == "Files.numfiles")]
    ids = [i for i, t in enumerate(tokens) if t[0] == "id"]
    for i in nums:
        for big in PAIR_NUMS:
            for j in ids:
                for nid in (range(0, 27) if all_ids else (0,)):
                    if nid == tokens[j][1]:
                        continue
                    t = copy.deepcopy(tokens)
                    t[i][1] = big
                    t[j][1] = nid
                    yield f"pair:{tokens[i][2]}={big}&{tokens[j][2]}:id={nid}", t


def mutants(base, pairs: str | None = None):
    """(label, inner tokens, outer edit): the inner header's mutants, then every single-token mutation of the
    streams info that describes the packed header (declared pack size, unpack size, CRC, coder list ...), then
    (pairs = 'end' | 'all') the two-deviation mutants of pair_mutants."""
    for label, toks in header_mutants(base["tokens"]):
        yield label, toks, None
    if pairs:
        for label, toks in pair_mutants(base["tokens"], pairs == "all"):
            yield label, toks, None
    for i, tok in enumerate(outer_tokens(base)):
        for mv in _mutations_of(tok):
            yield f"outer:{tok[2]}:{tok[0]}={mv if not isinstance(mv, (bytes, list)) else (mv.hex()[:16] if isinstance(mv, bytes) else 'bits')}", base["tokens"], (i, mv)


def seal(base, tokens, outer=None):
    edit = None
    if outer is not None:
        def edit(t):
            t = copy.deepcopy(t)
            t[outer[0]][1] = outer[1]
            return t
    return ref7z.seal(base["body"], ref7z.assemble(tokens), base["layout"], base["password"], outer_edit=edit)
