"""Thin helpers around the py7zr under test: seams (rebinding module-level names), a collecting
WriterFactory, and write/read conveniences used by several checks."""
from __future__ import annotations

import contextlib
import io
import os

import py7zr
import py7zr.compressor
import py7zr.helpers
import py7zr.py7zr
from py7zr.io import Py7zIO, WriterFactory


class _Sink(Py7zIO):
    def __init__(self, name):
        self.name = name
        self.buf = bytearray()
        self.writes = 0

    def write(self, s):
        self.buf += s
        self.writes += 1
        return len(s)

    def read(self, size=None):
        return b""

    def seek(self, offset, whence=0):
        return 0

    def flush(self):
        pass

    def size(self):
        return len(self.buf)


class Collect(WriterFactory):
    """Factory that keeps every product (in creation order; duplicate names are kept apart)."""

    def __init__(self):
        self.items: list[_Sink] = []

    def create(self, filename: str) -> Py7zIO:
        s = _Sink(filename)
        self.items.append(s)
        return s

    def as_list(self):
        return [(s.name, bytes(s.buf)) for s in self.items]

    def as_map(self):
        return {s.name: bytes(s.buf) for s in self.items}


@contextlib.contextmanager
def seams(block: int | None = None, chunk: int | None = None, **more):
    """Rebind the size constants on the data path (and any further module-level name given as
    'module.attr' = value, module relative to py7zr)."""
    saved = []

    def setit(mod, attr, val):
        if not hasattr(mod, attr):
            if attr != "open":  # `open` is the builtin seen through the module's globals: shadowing it is the seam
                raise SeamMissing(f"{mod.__name__}.{attr}")
            saved.append((mod, attr, _MISSING))
        else:
            saved.append((mod, attr, getattr(mod, attr)))
        setattr(mod, attr, val)

    try:
        if block is not None:
            setit(py7zr.py7zr, "get_default_blocksize", lambda: block)
            setit(py7zr.compressor, "get_default_blocksize", lambda: block)
        if chunk is not None:
            setit(py7zr.py7zr, "get_memory_limit", lambda: chunk)
        for k, v in more.items():
            modname, _, attr = k.rpartition("__")
            mod = {"py7zr": py7zr.py7zr, "compressor": py7zr.compressor, "helpers": py7zr.helpers}[modname]
            setit(mod, attr, v)
        yield
    finally:
        for mod, attr, val in reversed(saved):
            if val is _MISSING:
                try:
                    delattr(mod, attr)
                except AttributeError:
                    pass
            else:
                setattr(mod, attr, val)


class SeamMissing(Exception):
    pass


@contextlib.contextmanager
def fixed_random(tag):
    """Rebind the library's source of IV randomness to a deterministic stream derived from `tag`, so that a base
    archive (and with it every damage label 'bit k of byte n') is the same bytes in every run and in every replay.
    Not used where randomness is the thing under test (C11)."""
    import hashlib

    state = {"n": 0}

    def det(n):
        out = b""
        while len(out) < n:
            out += hashlib.sha256(f"{tag}:{state['n']}".encode()).digest()
            state["n"] += 1
        return out[:n]

    if not hasattr(py7zr.compressor, "get_random_bytes"):
        raise SeamMissing("py7zr.compressor.get_random_bytes")
    if not hasattr(py7zr.helpers, "_time"):
        raise SeamMissing("py7zr.helpers._time")
    real_time = py7zr.helpers._time

    class _Clock:
        """the `time` module as py7zr.helpers sees it, with time() pinned (writestr/writef stamp members with 'now')"""

        def __getattr__(self, name):
            return getattr(real_time, name)

        @staticmethod
        def time():
            return 1700000000.0

    saved = py7zr.compressor.get_random_bytes
    py7zr.compressor.get_random_bytes = det
    py7zr.helpers._time = _Clock()
    try:
        yield
    finally:
        py7zr.compressor.get_random_bytes = saved
        py7zr.helpers._time = real_time


_MISSING = object()


_key_cache: dict = {}
_real_calculate_key = None


def install_key_cache():
    """Memoise the (pure) 7zAES key derivation; the function judged is still py7zr's own."""
    global _real_calculate_key
    if _real_calculate_key is not None:
        return
    _real_calculate_key = py7zr.compressor.calculate_key

    def cached(password, cycles, salt, digest):
        k = (bytes(password), cycles, bytes(salt), digest)
        if k not in _key_cache:
            _key_cache[k] = _real_calculate_key(password, cycles, salt, digest)
        return _key_cache[k]

    py7zr.compressor.calculate_key = cached


def py_write(members, filters=None, password=None, header="encoded", target=None, mode="w", via="writestr"):
    """members: list of (name, bytes).  Returns the archive bytes (target None => BytesIO)."""
    bio = target if target is not None else io.BytesIO()
    with py7zr.SevenZipFile(bio, mode, filters=filters, password=password) as z:
        if header == "raw":
            z.set_encoded_header_mode(False)
        elif header == "encrypted":
            z.set_encrypted_header(True)
        for name, data in members:
            if via == "writestr":
                z.writestr(data, name)
            else:
                z.writef(io.BytesIO(data), name)
    if target is None:
        return bio.getvalue()
    return None


def py_read(src, password=None):
    """-> (names, [(name, bytes)]) through extractall(factory)."""
    if isinstance(src, (bytes, bytearray)):
        src = io.BytesIO(bytes(src))
    with py7zr.SevenZipFile(src, "r", password=password) as z:
        names = z.getnames()
        f = Collect()
        z.extractall(factory=f)
    return names, f.as_list()


def tree_snapshot(root: str, follow=False):
    """{relpath: (kind, payload)} for everything under root."""
    out = {}
    for d, dirs, files in os.walk(root):
        for n in dirs + files:
            p = os.path.join(d, n)
            rel = os.path.relpath(p, root)
            st = os.lstat(p)
            import stat as S

            if S.S_ISLNK(st.st_mode):
                out[rel] = ("link", os.readlink(p))
            elif S.S_ISDIR(st.st_mode):
                out[rel] = ("dir", None)
            else:
                with open(p, "rb") as f:
                    out[rel] = ("file", f.read())
    return out
