"""Regenerates /verif/MANIFEST.json from the table below: `python -m mc.manifest`."""
from __future__ import annotations

import importlib
import json
import os

VERIF = os.path.dirname(os.path.dirname(os.path.abspath(__file__)))
PY = "PYTHONHASHSEED=0 PYTHONDONTWRITEBYTECODE=1 /venv/bin/python"

ENGINES = [
    {"name": "E1 explore", "path": "mc/core/explore.py", "kind_free_text": "stateless choice-tree explorer: deviation-bounded DFS with prefix replay; full products where the space is a product"},
    {"name": "E2 sched", "path": "mc/core/sched.py", "kind_free_text": "controlled scheduler over real threads (baton passing) with iterative preemption bounding"},
    {"name": "E3 bfs", "path": "mc/core/bfs.py", "kind_free_text": "explicit-state breadth-first search over call/session histories replayed on fresh real objects, canonical-state dedup"},
    {"name": "E4 device", "path": "mc/core/device.py", "kind_free_text": "recording file device + crash-image / damage-image enumerators"},
    {"name": "ref7z", "path": "mc/ref/ref7z.py", "kind_free_text": "independent 7z reader/writer used as reference model and hostile/foreign archive generator"},
    {"name": "pool", "path": "mc/core/pool.py", "kind_free_text": "persistent 16-process pool with soft/hard watchdogs (hang and crash are observable outcomes)"},
]

# id -> (level, engine, technique, level text, level note, design ref)
CHECKS: dict[str, tuple] = {}


def register(pid, level, engine, technique, text, note, ref):
    CHECKS[pid] = (level, engine, technique, text, note, ref)


register("C16", "exploration", "E1 explore", "exhaustive enumeration of a finite name space against an independent lexical oracle",
         "Complete product: every name of <= 6 components over {a,b,..,.,'',c:} x 3 prefixes x 2 suffixes through the gate, every name of <= 4 (thorough 5) components through real writestr/writef sessions, every spelling of every source in a scratch tree through write/writeall. The property is a statement about a lexical predicate, so a full product over a component alphabet that contains one representative per branch of the code is the right level.",
         "Trusts the 30-line independent definition in mc/checks/c16.py; POSIX only.", "DESIGN.md section 5 C16")
register("C17", "exploration", "E1 explore", "exhaustive enumeration of encodings/values with identity and cross-codec oracles",
         "All NUMBER values < 2^16 (thorough 2^24), all (length, leading byte) classes, all non-minimal encodings < 2^14, all bit vectors <= 12 bits and structured ones to 130 bits, one name per BMP scalar value, whole-header single-field deviations through raw and encoded headers; each through py7zr write->read, py7zr write->reference decode and reference encode->py7zr read.",
         "Trusts ref7z primitives (written from the format text, cross-validated on the 64 third-party fixtures).", "DESIGN.md section 5 C17")

register("C01", "exploration", "E1 explore", "bounded exhaustive enumeration (full products + deviation-bounded choice tree) of write/read round trips on the real code",
         "Every constructible filter chain x every size around the AES block and the (rebound and real) I/O block x textures, all documented parameter values, and all configurations within 2 (thorough 3) deviations of the default over header mode, target kind (path, BytesIO, file object, multi-volume 64/100/4096), member count, name class, chunk limit and API; oracle = names, extractall(factory) and extractall(path) equal the written list.",
         "Scaled planes rebind the two size constants on the data path; an anomaly is confirmed at the real constants before it is reported. Codec libraries are trusted.", "DESIGN.md section 5 C01")

register("C07", "exploration", "E1 explore", "bounded exhaustive enumeration of write sessions, each judged by an independent strict parser/decoder",
         "Every archive of the C01 planes plus all single/pair/triple append sessions over 8 member-list kinds (incl. directories, empty files, empty dirs, symlinks) is parsed by ref7z in strict mode, which enforces exactly the invariants the property names and re-derives every size and CRC by stage-wise decoding with its own codecs and 7zAES KDF.",
         "Trusts ref7z (validated on 54 third-party fixtures at setup). Does not demand minimal NUMBER encodings, a CRC on the encoded header, or terminated Brotli streams (noted in DESIGN.md).", "DESIGN.md section 5 C07")

register("C04", "fault_enumeration", "E4 device", "exhaustive enumeration of damage images (every bit flip, truncation, overwrite, insertion/removal, burst, block swap) on the real reader",
         "For each of 13 (thorough ~90) small base archives, every single-bit flip, every truncation length and the other exhaustive damage classes are opened, extracted and integrity-tested by the real code; the oracle is the pristine member map and consistency of test()/testzip() with extraction. Exhaustive per base, so no damaged position is left unexamined for these bases.",
         "Bases are small (200-600 bytes) and offered as streams (sequential extraction path). Hangs are counted here and judged by C05.", "DESIGN.md section 5 C04")

register("C10", "exploration", "E1 explore", "bounded exhaustive enumeration of archives (configurations, append sessions, reference layouts), listings compared with extraction and an independent structural parse",
         "Every archive of the shared enumerations is opened by path; getnames/namelist/list/files, sizes, CRCs, getinfo (with and without trailing slash, absent names), archiveinfo (total, blocks, solid, method names, size) and needs_password are compared with the bytes both readers agree on and with the folder/coder structure seen by ref7z.",
         "Archives on which py7zr's extraction and ref7z disagree are counted and left to C06/C08 (the listing question is undefined there).", "DESIGN.md section 5 C10")

register("C12", "model_checking", "E3 bfs", "explicit-state breadth-first search over call histories on the real object (state = replayed history, canonical-state dedup, dedup-off cross-check)",
         "All call histories of length <= 4 (thorough 6) in the property's language over 12 calls, on 4 intact and 3 damaged archives x path/BytesIO/file object, each replayed on a fresh SevenZipFile under three endings; oracle = differential against the freshly opened archive, verdict correctness on damaged copies, SHA-256 of the archive, watchdog. The property quantifies over histories, so an exhaustive search of the bounded language is the matching level.",
         "State merging relies on the census of mutable session fields (checked against vars() at run time; unknown attribute => dedup off); one configuration is additionally explored with dedup off as a cross-check.", "DESIGN.md section 5 C12")

register("C09", "exploration", "E1 explore", "exhaustive enumeration of all target subsets x option product on the real extractor",
         "All 2^n subsets of the member names of three archives (solid, reference-written multi-folder with interleaved directories, py7zr append sessions) with/without an absent name x list/set x trailing slash x recursive x factory/directory sink x stream/path (sequential/thread-parallel); oracle = restriction of the member map, nothing else created. The target space is finite, so it is enumerated completely.",
         "Names respect the property's prefix restriction; bytes are compared with the archive's own member map (the same that extractall delivers, checked by C01/C06).", "DESIGN.md section 5 C09")

register("C08", "model_checking", "E3 bfs", "exhaustive enumeration of session histories (create + appends) on the real code, member map read by two independent readers after every session",
         "Every first session over 8 member-list kinds x 5 chains x header modes, extended by every append session (depth 1), every pair over a reduced alphabet (depth 2; thorough: triples), plus every reference-written layout and every third-party fixture as initial state; after each session py7zr and ref7z must both see the previous member map unchanged (name, kind, bytes, mtime, attributes) followed by the appended members.",
         "Password constant along a history; ctime/atime not compared (the property observes mtime and attributes); stored '\\' separators compared as '/'.", "DESIGN.md section 5 C08")

register("C14", "fault_enumeration", "E4 device", "exhaustive crash-point enumeration: every byte prefix of the recorded write/truncate stream (plus bounded reordering) of real sessions, each image opened by two readers",
         "For 144 (thorough ~500) create/append sessions the ordered write stream is recorded on a logging device (raw stream and under the real io.BufferedRandom); every byte-prefix image and every drop-one-of-the-last-two image is opened with py7zr and ref7z; an accepted image must carry the complete member list of the session (append: before or after state).",
         "py7zr never syncs, so all ops are unsynced; reordering is bounded to one dropped op among the last two.", "DESIGN.md section 5 C14")
register("C15", "fault_enumeration", "E1 explore", "deviation-bounded choice-tree exploration of write histories with one injected filesystem fault at every answer position",
         "Histories of 0..2 good calls, one faulty call (missing source, wrong type, rejected name, or the k-th filesystem answer raising EACCES/EIO/ENOENT for every k), 0..2 good calls, with/close; both readers judge the closed archive against the model of successful calls; re-opening of the failed source is observed through the path objects.",
         "Faults are injected through pathlib.PosixPath subclasses and a BufferedIOBase wrapper handed to the public API.", "DESIGN.md section 5 C15")

register("C05", "fault_enumeration", "E4 device", "exhaustive enumeration of damaged / structure-mutated inputs x bounded call sequences on the real reader under time and address-space budgets",
         "Every truncation and bit flip of the base archives, section splices, every single-token mutation (and section drop/dup/swap) of ten reference-written headers with CRCs re-sealed, missing/wrong passwords; on every input that opens, every call sequence of length <= 2 (thorough 3) over 7 calls on one session. Oracle: per-call time budget, no MemoryError under baseline + 1 GiB, worker process alive (a crash under the limit is re-judged without the limit by peak RSS).",
         "LZMA/LZMA2/PPMd dictionary-size properties are not mutated (a large dictionary is a legal declaration). Budgets are >= 1000x the normal cost.", "DESIGN.md section 5 C05")

register("C06", "exploration", "E1 explore", "deviation-bounded exhaustive enumeration of (logical archive x physical layout) written by an independent writer and read by the real reader",
         "Every ordered member list of <= 3 (thorough 4, selected 5) entries over 5 kinds under every single layout deviation (and every pair for richer lists) over folder compositions, 18 chains, NumUnpackStream, CRC placement, packed CRCs, pack gaps, kDummy, EmptyFile, all-defined shortcuts, 6 header encodings, AES property shapes, undefined metadata, trailing bytes; plus all third-party fixtures. py7zr's names, kinds, sizes, times, attributes, bytes and on-disk kinds must equal the logical archive.",
         "ref7z self-checks every archive it writes; reverse coder order is deliberately not part of the layout space (not named by the property, no writer emits it).", "DESIGN.md section 5 C06")

register("C03", "exploration", "E1 explore", "exhaustive enumeration of hostile entry sequences (all singles, all ordered pairs/triples over reduced alphabets, link chains) extracted by the real code into a monitored jail",
         "Archives are built by the independent writer; every sequence is extracted under 7 configurations (destination absolute/relative/None, pre-populated, stream=sequential vs path=per-member folders with workers in forward and reverse order). Oracle: byte/mode/mtime/ctime snapshot of everything around the destination before vs after, plus an audit-hook tripwire. The hostile space is a small alphabet closed under the shortcuts visible in the code (lexical canonicalisation, link creation, duplicate names), so exhaustive sequences are the right level.",
         "Runs as uid 0. Interleavings of the parallel branch are reduced to the two extreme orders (C13 explores schedules on benign archives).", "DESIGN.md section 5 C03")

register("C13", "model_checking", "E2 sched", "stateless model checking of the real threads under a controlled scheduler with iterative preemption bounding; second line-level pass; schedules replayed twice before exploring",
         "Every interleaving of the extraction workers at visible operations (thread start/join, archive open, every output create/write, queue operations) within preemption bound 2 (thorough 3; all interleavings for the smallest harnesses) on 2..4-folder archives, intact and with one folder damaged at each position in three ways, factory and directory sinks, and two independent sessions on one file; a line-level pass makes every py7zr source line inside workers a scheduling point. Oracle: sequential result in every schedule, no deadlock, no straggler, worker errors reach the caller.",
         "Timed waits fire only at quiescence; codec calls are atomic. The process-parallel option is not under the scheduler: it is compared with the sequential result on 12 free-running executions (its two deterministic defects are known findings).", "DESIGN.md section 5 C13")

register("C18", "model_checking", "E2 sched", "stateless model checking of workers + reporter thread + caller under the controlled scheduler, callbacks as scheduling points, harness-owned clock",
         "Every interleaving within the preemption bound (quick 1..2, thorough 2..3) of the extraction workers, the progress-reporter thread and the caller on single- and multi-folder archives, extractall and extract(targets), instantaneous and yielding callbacks, frozen and advancing clock; the recorded callback sequence is judged against the event grammar relative to the return of close().",
         "Timed waits (reporter poll, close() join) fire only at quiescence, i.e. handlers are brief relative to 1 s. Two extraction calls in one session are executed but not judged (outside the quantifier).", "DESIGN.md section 5 C18")

register("C02", "exploration", "E1 explore", "exhaustive enumeration of small directory trees plus deviation-bounded choice-tree exploration of metadata/configuration, on the real writeall/extractall path",
         "Every tree of <= 3 (thorough 4) nodes over 7 node kinds (incl. four kinds of relative symlinks) round-tripped through writeall+extractall; for six richer trees every combination of <= 2 (thorough 3) deviations over per-node modes, mtimes, name classes, arcname, dereference, default filters, password, shutil entry points, absolute source; and a sweep of 557 modification times over 1970..2100. Oracle: lstat/readlink/bytes of the extracted tree vs the source, permission bits, |delta mtime| <= 5 us.",
         "uid 0 on tmpfs; Windows branches unreachable; dereference is not combined with links whose target contains the link.", "DESIGN.md section 5 C02")

register("C11", "exploration", "E1 explore", "full product enumeration of (AES chain x header-encryption mode x password) with byte-level leak searches and exhaustive single-edit wrong-password attacks on low-cycle reference archives",
         "Every AES chain family x header encryption off/ctor/setter x 5 (thorough 6) password classes: raw-byte searches for plaintext and names, decoding with the AES stage left out, keyless parse, IV/ciphertext uniqueness across two archives, outcomes with right / absent / 4 classes of wrong passwords; plus 9 reference-written archives with 2^0/2^4 KDF rounds attacked with every single-edit neighbour of the password.",
         "AES and SHA-256 primitives are trusted; py7zr's KDF is memoised (the independent KDF in ref7z cross-checks it in C07).", "DESIGN.md section 5 C11")

register("C19", "exploration", "E1 explore", "enumeration of subcommand x option alphabet x trees, and exhaustive flips/truncations of base archives through the real command-line entry point, judged against the library's verdict on the same bytes",
         "c/l/x/a/t/i over small source trees (with and without .7z, --verbose, with and without output directory), every -v SIZE x unit suffix combination, and t/x on every single-bit flip and truncation of 4 (thorough 8) base archives plus encrypted / unsupported / damaged fixtures; exit status 0 exactly when the library-level operation succeeds, and exit 0 on x implies the original bytes.",
         "Statuses are taken in-process; the status mapping is compared with real `python -m py7zr` subprocesses on 10 invocations per run. -P needs a terminal and is not exercised.", "DESIGN.md section 5 C19")

register("C20", "exploration", "E1 explore", "exhaustive enumeration of (codec family x texture x API x position) growth series on the real code with both data-path constants scaled down, metered by tracemalloc",
         "The property's sizes cannot be enumerated; the same code is run with the I/O block and the extraction chunk rebound to 1/2048, 1/1024 and 1/512 of their values on members of 1 and 4 MiB (2000x..8000x the block). Oracles: no growth of the tracemalloc peak with member size beyond the scaled budget, and the part of the peak proportional to the constants, extrapolated to the real constants from three collinear scales, below the budget. Five codec/direction pairs genuinely grow and are known findings.",
         "Block and chunk are the only size constants on the data path; tracemalloc sees Python-level buffers and codec return values, not codec-internal C allocations. Literal 0.5-4 GB members are not run.", "DESIGN.md section 5 C20")

NOT_YET = {}


def build():
    props = [json.loads(l) for l in open(os.path.join(VERIF, "properties.jsonl"))]
    checks = []
    na = []
    for p in props:
        pid = p["id"]
        if pid in CHECKS:
            level, engine, technique, text, note, ref = CHECKS[pid]
            checks.append({
                "property_id": pid,
                "quick_cmd": f"{PY} -m mc.run {pid} --tier quick",
                "thorough_cmd": f"{PY} -m mc.run {pid} --tier thorough",
                "evidence_file": f"/verif/evidence/{pid}.json",
                "replay_cmd_template": f"{PY} -m mc.replay {{path}}",
                "engine": engine,
                "level_claimed": {"category": level, "text": text, "design_ref": ref},
                "level_note": note,
                "technique": technique,
            })
        else:
            na.append({"property_id": pid, "reason": NOT_YET.get(pid, "check not built yet in this round (bounded exhaustive exploration applies; see DESIGN.md section 5) - not claimed until its check is committed")})
    m = {
        "version": 1,
        "setup_cmd": f"{PY} -m mc.selftest",
        "hooks": {
            "guard": "PY7ZR_VERIF",
            "enable": "no source hooks: every seam is a rebound module-level name (py7zr.py7zr.Thread/open/time/get_memory_limit, py7zr.compressor.get_default_blocksize, ...) or a public parameter; checks import py7zr from /repo's working tree",
            "baseline_off_cmd": "cd /repo && /venv/bin/python -m pytest -ra -q -p no:cacheprovider --timeout=900 --continue-on-collection-errors",
            "source_commits": [],
            "add_only": True,
        },
        "engines": [dict(e, serves_properties=sorted(k for k, v in CHECKS.items() if v[1] == e["name"])) for e in ENGINES],
        "checks": checks,
        "not_applicable": na,
        "notes": "All checks decide by bounded exhaustive enumeration on the real code (model checking family); see DESIGN.md. fix: commits in /repo are listed in known_findings.json.",
    }
    with open(os.path.join(VERIF, "MANIFEST.json"), "w") as f:
        json.dump(m, f, indent=1)
    return m


if __name__ == "__main__":
    m = build()
    print("checks:", [c["property_id"] for c in m["checks"]], "not_applicable:", len(m["not_applicable"]))
