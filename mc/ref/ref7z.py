"""ref7z: an independent reader/writer for the 7z container, written from docs/archive_format.rst and
the original 7-Zip format notes.  It shares no code with py7zr: nothing from the py7zr package is
imported here.  It calls the delegated codec libraries (lzma, bz2, zlib, pyzstd, pyppmd, bcj,
inflate64, brotli, Cryptodome AES) directly.

Reader: strict recursive-descent parse into plain dicts + stage-wise decoding of every folder with
all declared sizes and CRCs checked.  Writer: logical archive + layout record -> typed token stream
-> bytes.  Primitives (NUMBER, bit vectors, UTF-16 names, KDF) are exported for C17/C07/C11.
"""
from __future__ import annotations

import bz2
import hashlib
import io
import lzma
import struct
import zlib

MAGIC = b"7z\xbc\xaf\x27\x1c"

# property ids
K_END, K_HEADER, K_ARCPROPS, K_ADDSTREAMS, K_MAINSTREAMS, K_FILES, K_PACKINFO, K_UNPACKINFO = range(0, 8)
K_SUBSTREAMS, K_SIZE, K_CRC, K_FOLDER, K_CODERSUNPACKSIZE, K_NUMUNPACKSTREAM = range(8, 14)
K_EMPTYSTREAM, K_EMPTYFILE, K_ANTI, K_NAME, K_CTIME, K_ATIME, K_MTIME, K_ATTR = range(14, 22)
K_COMMENT, K_ENCODEDHEADER, K_STARTPOS, K_DUMMY = range(22, 26)

M_COPY = b"\x00"
M_DELTA = b"\x03"
M_BCJ_X86_S = b"\x04"
M_LZMA = b"\x03\x01\x01"
M_LZMA2 = b"\x21"
M_PPMD = b"\x03\x04\x01"
M_BCJ_X86 = b"\x03\x03\x01\x03"
M_BCJ2 = b"\x03\x03\x01\x1b"
M_PPC = b"\x03\x03\x02\x05"
M_IA64 = b"\x03\x03\x04\x01"
M_ARM = b"\x03\x03\x05\x01"
M_ARMT = b"\x03\x03\x07\x01"
M_SPARC = b"\x03\x03\x08\x05"
M_DEFLATE = b"\x04\x01\x08"
M_DEFLATE64 = b"\x04\x01\x09"
M_BZIP2 = b"\x04\x02\x02"
M_ZSTD = b"\x04\xf7\x11\x01"
M_BROTLI = b"\x04\xf7\x11\x02"
M_LZ4 = b"\x04\xf7\x11\x04"
M_AES = b"\x06\xf1\x07\x01"

METHOD_NAMES = {
    M_COPY: "COPY", M_DELTA: "DELTA", M_LZMA: "LZMA", M_LZMA2: "LZMA2", M_PPMD: "PPMD", M_BCJ_X86: "X86",
    M_BCJ_X86_S: "X86", M_PPC: "PPC", b"\x05": "PPC", M_IA64: "IA64", b"\x06": "IA64", M_ARM: "ARM", b"\x07": "ARM",
    M_ARMT: "ARMT", b"\x08": "ARMT", M_SPARC: "SPARC", b"\x09": "SPARC", M_DEFLATE: "DEFLATE", M_DEFLATE64: "DEFLATE64",
    M_BZIP2: "BZIP2", M_ZSTD: "ZSTD", M_BROTLI: "BROTLI", M_AES: "AES", M_BCJ2: "BCJ2", M_LZ4: "LZ4",
}
NAME_TO_METHOD = {
    "COPY": M_COPY, "DELTA": M_DELTA, "LZMA": M_LZMA, "LZMA2": M_LZMA2, "PPMD": M_PPMD, "X86": M_BCJ_X86, "PPC": M_PPC,
    "IA64": M_IA64, "ARM": M_ARM, "ARMT": M_ARMT, "SPARC": M_SPARC, "DEFLATE": M_DEFLATE, "DEFLATE64": M_DEFLATE64,
    "BZIP2": M_BZIP2, "ZSTD": M_ZSTD, "BROTLI": M_BROTLI, "AES": M_AES,
}


class FormatError(Exception):
    """The bytes are not a well-formed 7z archive (with the reason and where)."""


class Unsupported(Exception):
    """Well-formed as far as parsed, but uses a coder this reference has no decoder for."""


class NeedPassword(Exception):
    pass


# ---------------------------------------------------------------------------------------------
# primitives
# ---------------------------------------------------------------------------------------------
def crc32(b: bytes, v: int = 0) -> int:
    return zlib.crc32(b, v) & 0xFFFFFFFF


def enc_number(v: int) -> bytes:
    """7z NUMBER: the count of leading 1 bits of the first byte = number of extra bytes; the remaining
    low bits of the first byte are the high part; extra bytes are little endian."""
    if not 0 <= v < 1 << 64:
        raise ValueError(v)
    for extra in range(0, 8):
        if v < 1 << (7 * (extra + 1)):
            first = ((0xFF << (8 - extra)) & 0xFF) | (v >> (8 * extra))
            return bytes([first]) + (v & ((1 << (8 * extra)) - 1)).to_bytes(extra, "little")
    return b"\xff" + v.to_bytes(8, "little")


def enc_number_len(v: int, extra: int) -> bytes:
    """Encode v with exactly `extra` extra bytes (possibly non-minimal); ValueError if it does not fit."""
    if extra == 8:
        return b"\xff" + v.to_bytes(8, "little")
    if v >= 1 << (8 * extra + (7 - extra)):
        raise ValueError("does not fit")
    first = ((0xFF << (8 - extra)) & 0xFF) | (v >> (8 * extra))
    return bytes([first]) + (v & ((1 << (8 * extra)) - 1)).to_bytes(extra, "little")


def dec_number(buf: bytes, pos: int = 0) -> tuple[int, int]:
    if pos >= len(buf):
        raise FormatError("NUMBER: end of data")
    first = buf[pos]
    pos += 1
    extra = 0
    mask = 0x80
    while extra < 8 and first & mask:
        extra += 1
        mask >>= 1
    if pos + extra > len(buf):
        raise FormatError("NUMBER: truncated")
    low = int.from_bytes(buf[pos : pos + extra], "little")
    pos += extra
    if extra == 8:
        return low, pos
    high = first & (mask - 1)
    return low + (high << (8 * extra)), pos


def enc_bits(bits) -> bytes:
    out = bytearray((len(bits) + 7) // 8)
    for i, b in enumerate(bits):
        if b:
            out[i >> 3] |= 0x80 >> (i & 7)
    return bytes(out)


def dec_bits(buf: bytes, pos: int, n: int) -> tuple[list[bool], int]:
    nb = (n + 7) // 8
    if pos + nb > len(buf):
        raise FormatError("bit vector: truncated")
    out = [bool(buf[pos + (i >> 3)] & (0x80 >> (i & 7))) for i in range(n)]
    return out, pos + nb


def enc_bits_alldef(bits, shortcut: bool = True) -> bytes:
    if shortcut and all(bits):
        return b"\x01"
    return b"\x00" + enc_bits(bits)


def dec_bits_alldef(buf: bytes, pos: int, n: int) -> tuple[list[bool], int]:
    if pos >= len(buf):
        raise FormatError("AllAreDefined: end of data")
    if buf[pos] != 0:
        return [True] * n, pos + 1
    return dec_bits(buf, pos + 1, n)


def enc_name(s: str) -> bytes:
    return s.encode("utf-16-le", "surrogatepass") + b"\x00\x00"


def dec_name(buf: bytes, pos: int) -> tuple[str, int]:
    end = pos
    while True:
        if end + 2 > len(buf):
            raise FormatError("name: unterminated")
        if buf[end] == 0 and buf[end + 1] == 0:
            break
        end += 2
    return buf[pos:end].decode("utf-16-le", "surrogatepass"), end + 2


def kdf(password: str, cycles: int, salt: bytes = b"") -> bytes:
    """7zAES key derivation: SHA-256 over (salt + UTF-16LE password + 64-bit LE counter) repeated
    2^cycles times; cycles == 0x3f means the key is salt+password zero-padded to 32 bytes."""
    pw = password.encode("utf-16-le")
    if cycles == 0x3F:
        return (salt + pw + bytes(32))[:32]
    h = hashlib.sha256()
    base = salt + pw
    n = 1 << cycles
    step = 4096
    i = 0
    while i < n:
        m = min(step, n - i)
        h.update(b"".join(base + struct.pack("<Q", j) for j in range(i, i + m)))
        i += m
    return h.digest()


_kdf_cache: dict = {}


def kdf_cached(password: str, cycles: int, salt: bytes = b"") -> bytes:
    k = (password, cycles, salt)
    if k not in _kdf_cache:
        _kdf_cache[k] = kdf(password, cycles, salt)
    return _kdf_cache[k]


def lzma2_dict_byte(dict_size: int) -> int:
    for b in range(41):
        if lzma2_dict_size(b) >= dict_size:
            return b
    return 40


def lzma2_dict_size(b: int) -> int:
    if b > 40:
        raise FormatError("LZMA2 dictionary byte > 40")
    if b == 40:
        return 0xFFFFFFFF
    return (2 | (b & 1)) << (b // 2 + 11)


def delta_decode(data: bytes, dist: int) -> bytes:
    out = bytearray(data)
    for i in range(dist, len(out)):
        out[i] = (out[i] + out[i - dist]) & 0xFF
    return bytes(out)


def delta_encode(data: bytes, dist: int) -> bytes:
    out = bytearray(data)
    for i in range(len(out) - 1, dist - 1, -1):
        out[i] = (data[i] - data[i - dist]) & 0xFF
    return bytes(out)


# ---------------------------------------------------------------------------------------------
# coders
# ---------------------------------------------------------------------------------------------
_LZMA_FILTER_ID = {"X86": lzma.FILTER_X86, "ARM": lzma.FILTER_ARM, "ARMT": lzma.FILTER_ARMTHUMB, "PPC": lzma.FILTER_POWERPC,
                   "SPARC": lzma.FILTER_SPARC, "IA64": lzma.FILTER_IA64}


def _lzma2_store(data: bytes) -> bytes:
    """Wrap data into an LZMA2 stream made of uncompressed chunks only."""
    out = bytearray()
    for i in range(0, len(data), 65536):
        chunk = data[i : i + 65536]
        out.append(1 if i == 0 else 2)
        out += (len(chunk) - 1).to_bytes(2, "big")
        out += chunk
    out.append(0)
    return bytes(out)


def bcj_decode(name: str, data: bytes) -> bytes:
    """Branch-converter decode through liblzma (filter + stored LZMA2), independent of the `bcj` package."""
    if not data:
        return b""
    d = lzma.LZMADecompressor(lzma.FORMAT_RAW, filters=[{"id": _LZMA_FILTER_ID[name]}, {"id": lzma.FILTER_LZMA2, "dict_size": 1 << 16}])
    return d.decompress(_lzma2_store(data))


def bcj_encode(name: str, data: bytes) -> bytes:
    if not data:
        return b""
    c = lzma.LZMACompressor(lzma.FORMAT_RAW, filters=[{"id": _LZMA_FILTER_ID[name]}, {"id": lzma.FILTER_LZMA2, "preset": 0}])
    enc = c.compress(data) + c.flush()
    return lzma.LZMADecompressor(lzma.FORMAT_RAW, filters=[{"id": lzma.FILTER_LZMA2, "dict_size": 1 << 26}]).decompress(enc)


def decode_coder(method: bytes, props: bytes | None, data: bytes, unpack_size: int, password: str | None) -> bytes:
    name = METHOD_NAMES.get(method or b"\x00")
    if name is None or name in ("BCJ2", "LZ4"):
        raise Unsupported(f"coder {method.hex()} ({name})")
    if name == "COPY":
        return data
    if name == "LZMA2":
        if props is None or len(props) != 1:
            raise FormatError("LZMA2 properties must be 1 byte")
        d = lzma.LZMADecompressor(lzma.FORMAT_RAW, filters=[{"id": lzma.FILTER_LZMA2, "dict_size": max(4096, lzma2_dict_size(props[0]))}])
        return d.decompress(data, unpack_size)
    if name == "LZMA":
        if props is None or len(props) != 5:
            raise FormatError("LZMA properties must be 5 bytes")
        b0 = props[0]
        if b0 >= 9 * 5 * 5:
            raise FormatError("LZMA lc/lp/pb byte out of range")
        lc, rem = b0 % 9, b0 // 9
        lp, pb = rem % 5, rem // 5
        ds = struct.unpack("<L", props[1:5])[0]
        d = lzma.LZMADecompressor(lzma.FORMAT_RAW, filters=[{"id": lzma.FILTER_LZMA1, "lc": lc, "lp": lp, "pb": pb, "dict_size": max(4096, ds)}])
        return d.decompress(data, unpack_size)
    if name == "DELTA":
        dist = (props[0] if props else 0) + 1
        return delta_decode(data, dist)
    if name in ("X86", "ARM", "ARMT", "PPC", "SPARC", "IA64"):
        return bcj_decode(name, data)
    if name == "DEFLATE":
        d = zlib.decompressobj(wbits=-15)
        return d.decompress(data) + d.flush()
    if name == "DEFLATE64":
        import inflate64

        d = inflate64.Inflater()
        return d.inflate(data) + d.inflate(b"")
    if name == "BZIP2":
        return bz2.BZ2Decompressor().decompress(data)
    if name == "ZSTD":
        import pyzstd

        return pyzstd.decompress(data)  # (multi-frame)
    if name == "BROTLI":
        import brotli

        if data[:4] == b"\x50\x2a\x4d\x18":
            raise Unsupported("brotli skippable frame (zstdmt variant)")
        d = brotli.Decompressor()
        out = bytearray(d.process(data))
        while not d.is_finished():  # the decoder hands out its output in pieces
            more = d.process(b"")
            if not more:
                # not terminated: a one-shot brotli.decompress() - what an independent reader would use - refuses such a stream
                raise FormatError("Brotli stream is not terminated (no final meta-block)")
            out += more
        return bytes(out)
    if name == "PPMD":
        import pyppmd

        if props is None or len(props) not in (5, 7):
            raise FormatError("PPMd properties must be 5 bytes")
        order, mem = struct.unpack("<BL", props[:5])
        d = pyppmd.Ppmd7Decoder(order, mem)
        out = bytearray(d.decode(data, unpack_size)) if unpack_size else bytearray()
        guard = 0
        while len(out) < unpack_size and guard < 64:
            out += d.decode(b"\0" if d.needs_input else b"", unpack_size - len(out))
            guard += 1
        return bytes(out)
    if name == "AES":
        if password is None:
            raise NeedPassword()
        if not props:
            raise FormatError("7zAES without properties")
        b0 = props[0]
        cycles = b0 & 0x3F
        saltsize = ivsize = 0
        rest = props[1:]
        if b0 & 0xC0:
            if len(props) < 2:
                raise FormatError("7zAES properties truncated")
            b1 = props[1]
            saltsize = ((b0 >> 7) & 1) + (b1 >> 4)
            ivsize = ((b0 >> 6) & 1) + (b1 & 0x0F)
            rest = props[2:]
        if len(rest) != saltsize + ivsize:
            raise FormatError("7zAES properties length mismatch")
        if cycles > 24 and cycles != 0x3F:
            raise Unsupported("7zAES cycles > 24")
        salt, iv = rest[:saltsize], rest[saltsize:] + bytes(16 - ivsize)
        from Cryptodome.Cipher import AES

        if len(data) % 16:
            raise FormatError("7zAES stream not a multiple of 16 bytes")
        return AES.new(kdf_cached(password, cycles, salt), AES.MODE_CBC, iv).decrypt(data)
    raise Unsupported(name)


def encode_coder(name: str, data: bytes, params: dict, password: str | None) -> tuple[bytes, bytes | None]:
    """-> (encoded bytes, coder properties)"""
    if name == "COPY":
        return data, None
    if name == "LZMA2":
        ds = params.get("dict_size", 1 << 16)
        b = lzma2_dict_byte(ds)
        c = lzma.LZMACompressor(lzma.FORMAT_RAW, filters=[{"id": lzma.FILTER_LZMA2, "preset": params.get("preset", 1), "dict_size": lzma2_dict_size(b)}])
        return c.compress(data) + c.flush(), bytes([b])
    if name == "LZMA":
        ds = params.get("dict_size", 1 << 16)
        lc, lp, pb = 3, 0, 2
        c = lzma.LZMACompressor(lzma.FORMAT_RAW, filters=[{"id": lzma.FILTER_LZMA1, "preset": params.get("preset", 1), "dict_size": ds, "lc": lc, "lp": lp, "pb": pb}])
        return c.compress(data) + c.flush(), bytes([(pb * 5 + lp) * 9 + lc]) + struct.pack("<L", ds)
    if name == "DELTA":
        dist = params.get("dist", 1)
        return delta_encode(data, dist), bytes([dist - 1])
    if name in ("X86", "ARM", "ARMT", "PPC", "SPARC", "IA64"):
        return bcj_encode(name, data), None
    if name == "DEFLATE":
        c = zlib.compressobj(wbits=-15)
        return c.compress(data) + c.flush(), None
    if name == "DEFLATE64":
        import inflate64

        c = inflate64.Deflater()
        return c.deflate(data) + c.flush(), None
    if name == "BZIP2":
        c = bz2.BZ2Compressor()
        return c.compress(data) + c.flush(), None
    if name == "ZSTD":
        import pyzstd

        # frames > 1: the stream is a concatenation of complete Zstandard frames (what multi-threaded encoders emit);
        # the Zstandard format defines the content of such a stream as the concatenation of the frames' contents
        k = max(1, params.get("frames", 1))
        cut = [len(data) * i // k for i in range(k + 1)]
        out = b""
        for i in range(k):
            c = pyzstd.ZstdCompressor(params.get("level", 3))
            out += c.compress(data[cut[i] : cut[i + 1]]) + c.flush()
        return out, bytes([pyzstd.zstd_version_info[0], pyzstd.zstd_version_info[1], params.get("level", 3), 0, 0])
    if name == "BROTLI":
        import brotli

        c = brotli.Compressor(quality=params.get("level", 5))
        return c.process(data) + c.finish(), bytes([1, 0, params.get("level", 5)])
    if name == "PPMD":
        import pyppmd

        order, mem = params.get("order", 6), params.get("mem", 1 << 20)
        e = pyppmd.Ppmd7Encoder(order, mem)
        return e.encode(data) + e.flush(), struct.pack("<BL", order, mem)
    if name == "AES":
        from Cryptodome.Cipher import AES

        cycles = params.get("cycles", 4)
        salt = params.get("salt", b"")
        iv = params.get("iv", bytes(range(1, 9)))
        key = kdf_cached(password or "", cycles, salt)
        padded = data + bytes(-len(data) & 15)
        enc = AES.new(key, AES.MODE_CBC, iv + bytes(16 - len(iv))).encrypt(padded)
        b0 = cycles | (0x40 if iv else 0) | (0x80 if salt else 0)
        if not (b0 & 0xC0):
            return enc, bytes([b0])
        b1 = ((len(salt) - (1 if salt else 0)) << 4) | (len(iv) - (1 if iv else 0))
        return enc, bytes([b0, b1]) + salt + iv
    raise Unsupported(name)


# ---------------------------------------------------------------------------------------------
# reader
# ---------------------------------------------------------------------------------------------
class Cur:
    def __init__(self, buf: bytes, what: str):
        self.buf = bytes(buf)
        self.pos = 0
        self.what = what

    def err(self, msg):
        raise FormatError(f"{self.what}@{self.pos}: {msg}")

    def byte(self) -> int:
        if self.pos >= len(self.buf):
            self.err("unexpected end")
        b = self.buf[self.pos]
        self.pos += 1
        return b

    def number(self) -> int:
        try:
            v, self.pos = dec_number(self.buf, self.pos)
        except FormatError as e:
            self.err(str(e))
        return v

    def take(self, n: int) -> bytes:
        if n < 0 or self.pos + n > len(self.buf):
            self.err(f"need {n} bytes, {len(self.buf) - self.pos} left")
        b = self.buf[self.pos : self.pos + n]
        self.pos += n
        return b

    def u32(self) -> int:
        return struct.unpack("<L", self.take(4))[0]

    def u64(self) -> int:
        return struct.unpack("<Q", self.take(8))[0]

    def bits(self, n: int):
        try:
            v, self.pos = dec_bits(self.buf, self.pos, n)
        except FormatError as e:
            self.err(str(e))
        return v

    def bits_alldef(self, n: int):
        try:
            v, self.pos = dec_bits_alldef(self.buf, self.pos, n)
        except FormatError as e:
            self.err(str(e))
        return v

    def left(self) -> int:
        return len(self.buf) - self.pos


LIMIT = 1 << 20  # structural counts above this are rejected instead of allocated


def _parse_packinfo(c: Cur) -> dict:
    pi = {"packpos": c.number(), "n": c.number(), "sizes": None, "crcs": None}
    if pi["n"] > LIMIT:
        c.err("too many pack streams")
    t = c.byte()
    if t == K_SIZE:
        pi["sizes"] = [c.number() for _ in range(pi["n"])]
        t = c.byte()
    if t == K_CRC:
        d = c.bits_alldef(pi["n"])
        pi["crcs"] = [c.u32() if x else None for x in d]
        t = c.byte()
    if t != K_END:
        c.err(f"PackInfo: unexpected id {t}")
    if pi["sizes"] is None:
        if pi["n"]:
            c.err("PackInfo without sizes")
        pi["sizes"] = []
    return pi


def _parse_folder(c: Cur) -> dict:
    nc = c.number()
    if not 1 <= nc <= 32:
        c.err(f"folder with {nc} coders")
    coders = []
    tin = tout = 0
    for _ in range(nc):
        b = c.byte()
        if b & 0xC0:
            c.err("coder flag: reserved bits / alternative methods set")
        idsize = b & 0x0F
        method = c.take(idsize)
        nin = nout = 1
        if b & 0x10:
            nin, nout = c.number(), c.number()
            if nin > 32 or nout > 32:
                c.err("coder with too many streams")
        props = None
        if b & 0x20:
            props = c.take(c.number())
        coders.append({"method": method, "nin": nin, "nout": nout, "props": props})
        tin += nin
        tout += nout
    if tout == 0:
        c.err("folder without out streams")
    nbind = tout - 1
    binds = [(c.number(), c.number()) for _ in range(nbind)]  # (InIndex, OutIndex)
    npacked = tin - nbind
    if npacked < 1:
        c.err("folder without packed streams")
    if npacked == 1:
        bound_in = {i for i, _ in binds}
        packed = [i for i in range(tin) if i not in bound_in]
        if len(packed) != 1:
            c.err("folder: cannot identify the packed stream")
    else:
        packed = [c.number() for _ in range(npacked)]
    for i, o in binds:
        if i >= tin or o >= tout:
            c.err("bind pair index out of range")
    return {"coders": coders, "binds": binds, "packed": packed, "tin": tin, "tout": tout, "unpacksizes": None, "crc": None}


def _main_out(f: dict) -> int:
    bound_out = {o for _, o in f["binds"]}
    free = [o for o in range(f["tout"]) if o not in bound_out]
    if len(free) != 1:
        raise FormatError("folder: main out stream is not unique")
    return free[0]


def _parse_unpackinfo(c: Cur) -> list[dict]:
    if c.byte() != K_FOLDER:
        c.err("UnpackInfo: Folder id expected")
    nf = c.number()
    if nf > LIMIT:
        c.err("too many folders")
    if c.byte() != 0:
        raise Unsupported("external folder definitions")
    folders = [_parse_folder(c) for _ in range(nf)]
    if c.byte() != K_CODERSUNPACKSIZE:
        c.err("CodersUnpackSize id expected")
    for f in folders:
        f["unpacksizes"] = [c.number() for _ in range(f["tout"])]
    t = c.byte()
    if t == K_CRC:
        d = c.bits_alldef(nf)
        for f, x in zip(folders, d):
            f["crc"] = c.u32() if x else None
        t = c.byte()
    if t != K_END:
        c.err(f"UnpackInfo: unexpected id {t}")
    return folders


def _parse_substreams(c: Cur, folders: list[dict]) -> dict:
    nf = len(folders)
    nums = [1] * nf
    t = c.byte()
    if t == K_NUMUNPACKSTREAM:
        nums = [c.number() for _ in range(nf)]
        if sum(nums) > LIMIT:
            c.err("too many substreams")
        t = c.byte()
    sizes: list[list[int]] = []
    if t == K_SIZE:
        for f, n in zip(folders, nums):
            if n == 0:
                sizes.append([])
                continue
            total = f["unpacksizes"][_main_out(f)]
            s = [c.number() for _ in range(n - 1)]
            if sum(s) > total:
                c.err("substream sizes exceed the folder's unpack size")
            sizes.append(s + [total - sum(s)])
        t = c.byte()
    else:
        for f, n in zip(folders, nums):
            if n == 1:
                sizes.append([f["unpacksizes"][_main_out(f)]])
            elif n == 0:
                sizes.append([])
            else:
                c.err("several substreams but no Size property")
    ndig = sum(n for f, n in zip(folders, nums) if not (n == 1 and f["crc"] is not None))
    crcs: list[list] = [[None] * n for n in nums]
    if t == K_CRC:
        d = c.bits_alldef(ndig)
        vals = iter([c.u32() if x else None for x in d])
        for k, (f, n) in enumerate(zip(folders, nums)):
            if n == 1 and f["crc"] is not None:
                continue
            for j in range(n):
                crcs[k][j] = next(vals)
        t = c.byte()
    for k, (f, n) in enumerate(zip(folders, nums)):
        if n == 1 and f["crc"] is not None:
            crcs[k][0] = f["crc"]
    if t != K_END:
        c.err(f"SubStreamsInfo: unexpected id {t}")
    return {"nums": nums, "sizes": sizes, "crcs": crcs, "explicit_nums": None}


def _parse_streams(c: Cur, for_header: bool = False) -> dict:
    s = {"pack": None, "folders": [], "sub": None}
    t = c.byte()
    if t == K_PACKINFO:
        s["pack"] = _parse_packinfo(c)
        t = c.byte()
    if t == K_UNPACKINFO:
        s["folders"] = _parse_unpackinfo(c)
        t = c.byte()
    if t == K_SUBSTREAMS:
        s["sub"] = _parse_substreams(c, s["folders"])
        t = c.byte()
    if t != K_END:
        c.err(f"StreamsInfo: unexpected id {t}")
    if s["sub"] is None:
        fs = s["folders"]
        s["sub"] = {"nums": [1] * len(fs), "sizes": [[f["unpacksizes"][_main_out(f)]] for f in fs], "crcs": [[f["crc"]] for f in fs]}
    npk = sum(len(f["packed"]) for f in s["folders"])
    have = s["pack"]["n"] if s["pack"] else 0
    if npk != have:
        c.err(f"folders consume {npk} pack streams but PackInfo declares {have}")
    return s


def _parse_files(c: Cur, notes: list) -> dict:
    n = c.number()
    if n > LIMIT:
        c.err("too many files")
    fi: dict = {"n": n, "emptystream": None, "emptyfile": None, "anti": None, "names": None, "ctime": None, "atime": None,
                "mtime": None, "attr": None, "dummy": [], "order": []}
    while True:
        t = c.byte()
        if t == K_END:
            break
        size = c.number()
        body = Cur(c.take(size), f"FilesInfo.prop{t}")
        fi["order"].append(t)
        if t == K_EMPTYSTREAM:
            fi["emptystream"] = body.bits(n)
        elif t == K_EMPTYFILE:
            if fi["emptystream"] is None:
                body.err("EmptyFile before EmptyStream")
            fi["emptyfile"] = body.bits(sum(fi["emptystream"]))
        elif t == K_ANTI:
            if fi["emptystream"] is None:
                body.err("Anti before EmptyStream")
            fi["anti"] = body.bits(sum(fi["emptystream"]))
        elif t == K_NAME:
            if body.byte() != 0:
                raise Unsupported("external names")
            names = []
            for _ in range(n):
                try:
                    s, body.pos = dec_name(body.buf, body.pos)
                except FormatError as e:
                    body.err(str(e))
                names.append(s)
            fi["names"] = names
        elif t in (K_CTIME, K_ATIME, K_MTIME):
            d = body.bits_alldef(n)
            if body.byte() != 0:
                raise Unsupported("external times")
            fi[{K_CTIME: "ctime", K_ATIME: "atime", K_MTIME: "mtime"}[t]] = [body.u64() if x else None for x in d]
        elif t == K_ATTR:
            d = body.bits_alldef(n)
            if body.byte() != 0:
                raise Unsupported("external attributes")
            fi["attr"] = [body.u32() if x else None for x in d]
        elif t == K_DUMMY:
            fi["dummy"].append(size)
            if any(body.buf):
                notes.append("non-zero kDummy")
            body.pos = len(body.buf)
        elif t == K_STARTPOS:
            d = body.bits_alldef(n)
            if body.byte() != 0:
                raise Unsupported("external start positions")
            [body.u64() for x in d if x]
        else:
            c.err(f"FilesInfo: unknown property id {t}")
        if body.left():
            body.err(f"property size field says {size} bytes but {body.pos} were needed")
    return fi


def _decode_folder(f: dict, packs: list[bytes], password: str | None, check: bool = True) -> tuple[bytes, list[int]]:
    """Decode a folder whose coders form a simple chain; returns (main output, per-out-stream sizes)."""
    for cdr in f["coders"]:
        if cdr["nin"] != 1 or cdr["nout"] != 1:
            raise Unsupported(f"complex coder {cdr['method'].hex()}")
    if len(f["packed"]) != 1:
        raise Unsupported("several packed streams")
    cur = f["packed"][0]
    data = packs[0]
    by_out = {o: i for i, o in f["binds"]}
    sizes = [None] * f["tout"]
    seen = set()
    while True:
        if cur in seen:
            raise FormatError("bind pairs form a cycle")
        seen.add(cur)
        cdr = f["coders"][cur]
        want = f["unpacksizes"][cur]
        data = decode_coder(cdr["method"], cdr["props"], data, want, password)
        name = METHOD_NAMES.get(cdr["method"] or b"\x00")
        if name == "AES":
            if len(data) < want:
                raise FormatError("AES stage shorter than declared")
            data = data[:want]  # zero padding to the AES block is part of the format
        if check and len(data) != want:
            raise FormatError(f"coder {name}: declared unpack size {want}, decoded {len(data)}")
        sizes[cur] = len(data)
        if cur in by_out:
            cur = by_out[cur]
        else:
            break
    if len(seen) != len(f["coders"]):
        raise FormatError("not every coder is on the chain")
    return data, sizes


def read(blob: bytes, password: str | None = None, strict: bool = True, decode: bool = True) -> dict:
    """Parse (and decode) a 7z archive.  Returns {"members": [...], "folders": [...], "header": {...}, "notes": [...]}"""
    notes: list[str] = []
    blob = bytes(blob)
    if len(blob) < 32:
        raise FormatError("shorter than a signature header")
    if blob[:6] != MAGIC:
        raise FormatError("bad magic")
    major, minor = blob[6], blob[7]
    if major != 0:
        raise FormatError(f"major version {major}")
    start_crc, = struct.unpack("<L", blob[8:12])
    if crc32(blob[12:32]) != start_crc:
        raise FormatError("start header CRC mismatch")
    nh_ofs, nh_size, nh_crc = struct.unpack("<QQL", blob[12:32])
    if 32 + nh_ofs + nh_size > len(blob):
        raise FormatError("next header lies outside the file")
    out: dict = {"members": [], "folders": [], "notes": notes,
                 "header": {"kind": "empty", "ofs": nh_ofs, "size": nh_size, "minor": minor, "coders": None,
                            "trailing": len(blob) - (32 + nh_ofs + nh_size)}}
    if nh_size == 0:
        if strict and (nh_ofs != 0 or nh_crc != 0):
            notes.append("empty archive with non-zero offset/crc")
        return out
    hdr = blob[32 + nh_ofs : 32 + nh_ofs + nh_size]
    if crc32(hdr) != nh_crc:
        raise FormatError("next header CRC mismatch")
    if strict and out["header"]["trailing"]:
        raise FormatError(f"{out['header']['trailing']} bytes after the header")
    c = Cur(hdr, "header")
    t = c.byte()
    data_end = nh_ofs  # where packed data must end (relative to 32)
    hstreams = None
    levels = 0
    while t == K_ENCODEDHEADER:
        levels += 1
        if levels > 4:
            raise FormatError("encoded header nesting too deep")
        hs = _parse_streams(c, True)
        if c.left():
            c.err("bytes after encoded-header StreamsInfo")
        if len(hs["folders"]) != 1:
            raise FormatError("encoded header must have exactly one folder")
        f = hs["folders"][0]
        pk = hs["pack"]
        if pk is None or len(pk["sizes"]) != 1:
            raise FormatError("encoded header must have exactly one pack stream")
        a = 32 + pk["packpos"]
        b = a + pk["sizes"][0]
        if b > 32 + data_end:
            raise FormatError("encoded header stream overlaps the header info")
        if strict and b != 32 + data_end:
            raise FormatError("gap between the encoded header stream and the header info")
        packed = blob[a:b]
        if pk["crcs"] and pk["crcs"][0] is not None and crc32(packed) != pk["crcs"][0]:
            raise FormatError("encoded header: packed CRC mismatch")
        raw, _ = _decode_folder(f, [packed], password)
        crc = hs["sub"]["crcs"][0][0] if hs["sub"]["crcs"][0] else f["crc"]
        if crc is not None and crc32(raw) != crc:
            raise FormatError("encoded header: CRC mismatch")
        if crc is None:
            notes.append("encoded header without CRC")
        out["header"]["kind"] = "encoded"
        out["header"]["coders"] = [METHOD_NAMES.get(x["method"], x["method"].hex()) for x in f["coders"]]
        out["header"]["packpos"] = pk["packpos"]
        out["header"]["packsize"] = pk["sizes"][0]
        hstreams = hs
        data_end = pk["packpos"]
        c = Cur(raw, "decoded header")
        t = c.byte()
    if t != K_HEADER:
        c.err(f"Header id expected, found {t}")
    if out["header"]["kind"] != "encoded":
        out["header"]["kind"] = "raw"
    out["header"]["raw"] = c.buf
    t = c.byte()
    if t == K_ARCPROPS:
        while True:
            pt = c.byte()
            if pt == K_END:
                break
            c.take(c.number())
        t = c.byte()
    if t == K_ADDSTREAMS:
        raise Unsupported("additional streams")
    streams = {"pack": None, "folders": [], "sub": {"nums": [], "sizes": [], "crcs": []}}
    if t == K_MAINSTREAMS:
        streams = _parse_streams(c)
        t = c.byte()
    files = None
    if t == K_FILES:
        files = _parse_files(c, notes)
        t = c.byte()
    if t != K_END:
        c.err(f"Header: unexpected id {t}")
    if c.left():
        c.err("bytes after the header's End")
    # ---- geometry of packed streams
    pk = streams["pack"]
    pos = 32 + (pk["packpos"] if pk else 0)
    packs = []
    if pk:
        for sz in pk["sizes"]:
            if pos + sz > 32 + data_end:
                raise FormatError("pack stream runs into the header")
            packs.append((pos, sz))
            pos += sz
        if strict and pos != 32 + data_end:
            raise FormatError(f"pack streams end at {pos} but header data begins at {32 + data_end}")
        if pk["crcs"]:
            for (a, sz), crc in zip(packs, pk["crcs"]):
                if crc is not None and crc32(blob[a : a + sz]) != crc:
                    raise FormatError("packed stream CRC mismatch")
    elif strict and data_end != 0:
        raise FormatError("no pack streams but header does not follow the signature header")
    out["header"]["packpos"] = pk["packpos"] if pk else 0
    out["header"]["has_pack_crc"] = bool(pk and pk["crcs"])
    # ---- folders
    sub = streams["sub"]
    pi = 0
    substreams: list[tuple[bytes | None, int | None, int]] = []  # (data, crc, size)
    for k, f in enumerate(streams["folders"]):
        mine = packs[pi : pi + len(f["packed"])]
        pi += len(f["packed"])
        info = {"coders": [METHOD_NAMES.get(x["method"], x["method"].hex()) for x in f["coders"]],
                "props": [x["props"] for x in f["coders"]], "unpacksizes": f["unpacksizes"], "crc": f["crc"],
                "nsub": sub["nums"][k], "packsizes": [s for _, s in mine], "binds": f["binds"]}
        out["folders"].append(info)
        if not decode:
            for j in range(sub["nums"][k]):
                substreams.append((None, sub["crcs"][k][j], sub["sizes"][k][j]))
            continue
        data, _ = _decode_folder(f, [blob[a : a + s] for a, s in mine], password)
        if f["crc"] is not None and crc32(data) != f["crc"]:
            raise FormatError(f"folder {k}: CRC mismatch")
        if sum(sub["sizes"][k]) != len(data):
            raise FormatError(f"folder {k}: substream sizes {sum(sub['sizes'][k])} != unpack size {len(data)}")
        o = 0
        for j in range(sub["nums"][k]):
            sz = sub["sizes"][k][j]
            piece = data[o : o + sz]
            o += sz
            crc = sub["crcs"][k][j]
            if crc is not None and crc32(piece) != crc:
                raise FormatError(f"folder {k} substream {j}: CRC mismatch")
            substreams.append((piece, crc, sz))
    # ---- files
    if files is None:
        if substreams and strict:
            notes.append("streams without FilesInfo")
        files = {"n": 0, "emptystream": None, "emptyfile": None, "anti": None, "names": None, "ctime": None, "atime": None,
                 "mtime": None, "attr": None, "dummy": [], "order": []}
    n = files["n"]
    es = files["emptystream"] or [False] * n
    ndata = n - sum(es)
    if ndata != len(substreams):
        raise FormatError(f"{ndata} files with data but {len(substreams)} substreams")
    ef = files["emptyfile"] or [False] * sum(es)
    an = files["anti"] or [False] * sum(es)
    si = ei = 0
    for i in range(n):
        m = {"name": files["names"][i] if files["names"] else None,
             "mtime": files["mtime"][i] if files["mtime"] else None,
             "ctime": files["ctime"][i] if files["ctime"] else None,
             "atime": files["atime"][i] if files["atime"] else None,
             "attr": files["attr"][i] if files["attr"] else None}
        if es[i]:
            m.update(data=None if not ef[ei] else b"", crc=None, size=0, kind="emptyfile" if ef[ei] else "dir", anti=an[ei], emptystream=True)
            ei += 1
        else:
            d, crc, sz = substreams[si]
            si += 1
            m.update(data=d, crc=crc, size=sz, kind="file", anti=False, emptystream=False)
        out["members"].append(m)
    out["files_raw"] = {k: files[k] for k in ("order", "dummy", "emptystream", "emptyfile")}
    return out


# ---------------------------------------------------------------------------------------------
# writer
# ---------------------------------------------------------------------------------------------
class Tokens:
    """Typed token stream; `assemble()` turns it into bytes.  Kinds: id, num, byte, u32, u64, bits, raw."""

    def __init__(self):
        self.t: list[list] = []

    def add(self, kind: str, value, path: str):
        self.t.append([kind, value, path])

    def id(self, v, path):
        self.add("id", v, path)

    def num(self, v, path):
        self.add("num", v, path)

    def byte(self, v, path):
        self.add("byte", v, path)

    def u32(self, v, path):
        self.add("u32", v, path)

    def u64(self, v, path):
        self.add("u64", v, path)

    def bits(self, v, path):
        self.add("bits", list(v), path)

    def raw(self, v, path):
        self.add("raw", bytes(v), path)

    def extend(self, other: "Tokens"):
        self.t.extend(other.t)


def assemble(tokens) -> bytes:
    out = bytearray()
    for kind, v, _ in tokens:
        if kind == "id" or kind == "byte":
            out.append(v & 0xFF)
        elif kind == "num":
            out += enc_number(v & 0xFFFFFFFFFFFFFFFF)
        elif kind == "u32":
            out += struct.pack("<L", v & 0xFFFFFFFF)
        elif kind == "u64":
            out += struct.pack("<Q", v & 0xFFFFFFFFFFFFFFFF)
        elif kind == "bits":
            out += enc_bits(v)
        elif kind == "raw":
            out += v
        else:
            raise ValueError(kind)
    return bytes(out)


def _alldef(tk: Tokens, bits, path, shortcut=True):
    if shortcut and all(bits):
        tk.byte(1, path + ".alldefined")
    else:
        tk.byte(0, path + ".alldefined")
        tk.bits(bits, path + ".defined")


DEFAULT_LAYOUT = {
    "folders": None,          # list of lists of data-member indices (in order); None = one solid folder
    "chains": None,           # per folder: list of (name, params); None = [("COPY", {})]
    "numunpack_omit": True,   # omit NumUnpackStream when every folder has exactly one substream
    "substreams_omit": False, # leave the whole SubStreamsInfo section out (legal when every folder holds exactly one stream
                              # and no per-substream CRC is to be stored: sizes and CRCs are then the folders')
    "startpos": False,        # write a kStartPos property (all zero) into FilesInfo
    "crc": "substream",       # "substream" | "folder" | "none" | "both"
    "pack_crc": False,
    "packpos": 0,
    "dummy": None,            # None or length of a kDummy record placed before Names
    "emptyfile": "auto",      # "auto": only when an empty file exists; "always": whenever an empty stream exists
    "alldef_shortcut": True,
    "header": "raw",          # "raw" | "lzma" | "lzma2" | "copy" | "aes" | "lzma2+aes"
    "header_crc": True,       # folder CRC on the encoded header
    "aes": {"cycles": 4, "salt": b"", "iv": bytes(range(1, 9))},
    "trailing": 0,
    "coder_order": "decode",  # "decode": the coder reading the packed stream first (what 7-Zip and p7zip write);
                              # "reverse": outermost first (legal: topology is defined by the bind pairs)
    "minor": 4,
}


def write(members: list[dict], layout: dict | None = None, password: str | None = None, want_tokens: bool = False):
    """members: dicts with name, kind in {file, emptyfile, dir, symlink}, data (bytes; for symlink the target),
    optional mtime/ctime/atime (FILETIME int) and attr (int).  Returns bytes (and the header token list)."""
    L = dict(DEFAULT_LAYOUT)
    if layout:
        L.update(layout)
    data_idx = [i for i, m in enumerate(members) if m["kind"] in ("file", "symlink") and not m.get("force_emptystream")]
    # a zero-length "file" may legally be stored either as an empty stream or as a zero-size substream
    folders = L["folders"]
    if folders is None:
        folders = [data_idx] if data_idx else []
    flat = [i for f in folders for i in f]
    if flat != data_idx:
        raise ValueError("layout.folders must partition the data members in order")
    chains = L["chains"] or [[("COPY", {})] for _ in folders]
    body = bytearray(bytes(L["packpos"]))
    finfo = []
    for fidx, chain in zip(folders, chains):
        raw = b"".join(members[i]["data"] for i in fidx)
        stage = raw
        coders = []  # innermost (first applied when encoding) first
        usizes = []
        for name, params in chain:
            usizes.append(len(stage))
            p = dict(params)
            if name == "AES":
                for k, v in L["aes"].items():
                    p.setdefault(k, v)
            stage, props = encode_coder(name, stage, p, password)
            coders.append((NAME_TO_METHOD[name], props))
        finfo.append({"packed": stage, "coders": coders, "usizes": usizes, "crc": crc32(raw), "n": len(fidx),
                      "sizes": [len(members[i]["data"]) for i in fidx], "crcs": [crc32(members[i]["data"]) for i in fidx]})
        body += stage
    tk = Tokens()
    tk.id(K_HEADER, "Header")
    if finfo:
        omit = bool(L.get("substreams_omit")) and all(f["n"] == 1 for f in finfo) and L["crc"] in ("folder", "none")
        tk.extend(_streams_tokens(finfo, L, L["packpos"], "Main", K_MAINSTREAMS, substreams=not omit))
    if members:
        tk.extend(_files_tokens(members, data_idx, L))
    tk.id(K_END, "Header.end")
    header = assemble(tk.t)
    blob = seal(bytes(body), header, L, password)
    return (blob, tk.t) if want_tokens else blob


def seal(body: bytes, header: bytes, L: dict | None = None, password: str | None = None, outer_edit=None) -> bytes:
    """body (everything between the signature header and the header) + raw header bytes -> archive,
    encoding the header as the layout says and computing all outer CRCs."""
    LL = dict(DEFAULT_LAYOUT)
    if L:
        LL.update(L)
    L = LL
    body = bytes(body)
    if L["header"] != "raw":
        chain = {"lzma": [("LZMA", {})], "lzma2": [("LZMA2", {})], "copy": [("COPY", {})], "aes": [("AES", {})],
                 "lzma2+aes": [("LZMA2", {}), ("AES", {})]}[L["header"]]
        stage = header
        coders, usizes = [], []
        for name, params in chain:
            usizes.append(len(stage))
            p = dict(params)
            if name == "AES":
                for k, v in L["aes"].items():
                    p.setdefault(k, v)
            stage, props = encode_coder(name, stage, p, password)
            coders.append((NAME_TO_METHOD[name], props))
        hf = [{"packed": stage, "coders": coders, "usizes": usizes, "crc": crc32(header), "n": 1, "sizes": [len(header)],
               "crcs": [crc32(header)]}]
        packpos = len(body)
        body = body + stage
        hl = dict(L)
        hl.update(crc="folder" if L["header_crc"] else "none", numunpack_omit=True, pack_crc=False)
        tk = _streams_tokens(hf, hl, packpos, "EncodedHeader", K_ENCODEDHEADER, substreams=False)
        header = assemble(outer_edit(tk.t) if outer_edit else tk.t)  # (outer_edit: token-level mutation of the streams info that describes the packed header)
    nh_ofs = len(body)
    tail = struct.pack("<QQL", nh_ofs, len(header), crc32(header))
    sig = MAGIC + bytes([0, L["minor"]]) + struct.pack("<L", crc32(tail)) + tail
    return sig + body + header + bytes(L["trailing"])


def _streams_tokens(finfo, L, packpos, tag, top_id, substreams=True) -> Tokens:
    tk = Tokens()
    tk.id(top_id, tag)
    tk.id(K_PACKINFO, tag + ".PackInfo")
    tk.num(packpos, tag + ".PackInfo.packpos")
    tk.num(len(finfo), tag + ".PackInfo.numstreams")
    tk.id(K_SIZE, tag + ".PackInfo.size")
    for k, f in enumerate(finfo):
        tk.num(len(f["packed"]), f"{tag}.PackInfo.size[{k}]")
    if L["pack_crc"]:
        pdef = [True] * len(finfo) if L["pack_crc"] != "partial" else [k % 2 == 0 for k in range(len(finfo))]
        tk.id(K_CRC, tag + ".PackInfo.crc")
        _alldef(tk, pdef, tag + ".PackInfo.crc", L["alldef_shortcut"])
        for k, f in enumerate(finfo):
            if pdef[k]:
                tk.u32(crc32(f["packed"]), f"{tag}.PackInfo.crc[{k}]")
    tk.id(K_END, tag + ".PackInfo.end")
    tk.id(K_UNPACKINFO, tag + ".UnpackInfo")
    tk.id(K_FOLDER, tag + ".UnpackInfo.folder")
    tk.num(len(finfo), tag + ".UnpackInfo.numfolders")
    tk.byte(0, tag + ".UnpackInfo.external")
    for k, f in enumerate(finfo):
        p = f"{tag}.Folder[{k}]"
        nc = len(f["coders"])
        tk.num(nc, p + ".numcoders")
        # f["coders"] is in encoding order: [0] sees the plain data, [-1] produces the packed stream
        order = list(range(nc))[::-1] if L["coder_order"] == "decode" else list(range(nc))
        # index in the written list of encoding-coder j
        for w, j in enumerate(order):
            method, props = f["coders"][j]
            flag = len(method) | (0x20 if props is not None else 0)
            tk.byte(flag, f"{p}.coder[{w}].flag")
            tk.raw(method, f"{p}.coder[{w}].method")
            if props is not None:
                tk.num(len(props), f"{p}.coder[{w}].propsize")
                tk.raw(props, f"{p}.coder[{w}].props")
        wpos = {j: w for w, j in enumerate(order)}
        # decoding: coder j (encoding index) consumes the output of coder j+1
        for j in range(nc - 1):
            tk.num(wpos[j], f"{p}.bind[{j}].in")
            tk.num(wpos[j + 1], f"{p}.bind[{j}].out")
        f["_order"] = order
    tk.id(K_CODERSUNPACKSIZE, tag + ".UnpackInfo.unpacksize")
    for k, f in enumerate(finfo):
        for w, j in enumerate(f["_order"]):
            tk.num(f["usizes"][j], f"{tag}.Folder[{k}].unpacksize[{w}]")
    folder_crc = L["crc"] in ("folder", "both")
    if folder_crc:
        tk.id(K_CRC, tag + ".UnpackInfo.crc")
        _alldef(tk, [True] * len(finfo), tag + ".UnpackInfo.crc", L["alldef_shortcut"])
        for k, f in enumerate(finfo):
            tk.u32(f["crc"], f"{tag}.Folder[{k}].crc")
    tk.id(K_END, tag + ".UnpackInfo.end")
    if substreams:
        nums = [f["n"] for f in finfo]
        tk.id(K_SUBSTREAMS, tag + ".SubStreams")
        if not (L["numunpack_omit"] and all(n == 1 for n in nums)):
            tk.id(K_NUMUNPACKSTREAM, tag + ".SubStreams.numunpack")
            for k, n in enumerate(nums):
                tk.num(n, f"{tag}.SubStreams.numunpack[{k}]")
        if any(n > 1 for n in nums):
            tk.id(K_SIZE, tag + ".SubStreams.size")
            for k, f in enumerate(finfo):
                for j, s in enumerate(f["sizes"][:-1]):
                    tk.num(s, f"{tag}.SubStreams.size[{k}][{j}]")
        if L["crc"] in ("substream", "both", "partial"):
            need = []
            for k, f in enumerate(finfo):
                if f["n"] == 1 and folder_crc:
                    continue
                need.extend(f["crcs"])
            # "partial": only every other substream carries a CRC (the Digests structure stores CRCs[NumDefined])
            defined = [True] * len(need) if L["crc"] != "partial" else [j % 2 == 0 for j in range(len(need))]
            if any(defined):
                tk.id(K_CRC, tag + ".SubStreams.crc")
                _alldef(tk, defined, tag + ".SubStreams.crc", L["alldef_shortcut"])
                for j, c in enumerate(need):
                    if defined[j]:
                        tk.u32(c, f"{tag}.SubStreams.crc[{j}]")
        tk.id(K_END, tag + ".SubStreams.end")
    tk.id(K_END, tag + ".end")
    return tk


def _prop(tk: Tokens, pid: int, inner: Tokens, path: str):
    tk.id(pid, path)
    tk.num(len(assemble(inner.t)), path + ".size")
    tk.extend(inner)


def _files_tokens(members, data_idx, L) -> Tokens:
    tk = Tokens()
    n = len(members)
    tk.id(K_FILES, "Files")
    tk.num(n, "Files.numfiles")
    ds = set(data_idx)
    es = [i not in ds for i in range(n)]
    if any(es):
        inner = Tokens()
        inner.bits(es, "Files.emptystream.bits")
        _prop(tk, K_EMPTYSTREAM, inner, "Files.emptystream")
        ef = [members[i]["kind"] in ("emptyfile", "file", "symlink") for i in range(n) if es[i]]
        if any(ef) or L["emptyfile"] == "always":
            inner = Tokens()
            inner.bits(ef, "Files.emptyfile.bits")
            _prop(tk, K_EMPTYFILE, inner, "Files.emptyfile")
    if L["dummy"] is not None:
        inner = Tokens()
        inner.raw(bytes(L["dummy"]), "Files.dummy.zeros")
        _prop(tk, K_DUMMY, inner, "Files.dummy")
    inner = Tokens()
    inner.byte(0, "Files.names.external")
    for i, m in enumerate(members):
        inner.raw(enc_name(m["name"]), f"Files.names[{i}]")
    _prop(tk, K_NAME, inner, "Files.names")
    for key, pid in (("ctime", K_CTIME), ("atime", K_ATIME), ("mtime", K_MTIME)):
        vals = [m.get(key) for m in members]
        if any(v is not None for v in vals):
            inner = Tokens()
            _alldef(inner, [v is not None for v in vals], f"Files.{key}", L["alldef_shortcut"])
            inner.byte(0, f"Files.{key}.external")
            for i, v in enumerate(vals):
                if v is not None:
                    inner.u64(v, f"Files.{key}[{i}]")
            _prop(tk, pid, inner, f"Files.{key}")
    vals = [m.get("attr") for m in members]
    if any(v is not None for v in vals):
        inner = Tokens()
        _alldef(inner, [v is not None for v in vals], "Files.attr", L["alldef_shortcut"])
        inner.byte(0, "Files.attr.external")
        for i, v in enumerate(vals):
            if v is not None:
                inner.u32(v, f"Files.attr[{i}]")
        _prop(tk, K_ATTR, inner, "Files.attr")
    if L.get("startpos"):
        inner = Tokens()
        _alldef(inner, [True] * len(members), "Files.startpos", L["alldef_shortcut"])
        inner.byte(0, "Files.startpos.external")
        for i in range(len(members)):
            inner.u64(0, f"Files.startpos[{i}]")
        _prop(tk, K_STARTPOS, inner, "Files.startpos")
    tk.id(K_END, "Files.end")
    return tk


# ---------------------------------------------------------------------------------------------
# convenience
# ---------------------------------------------------------------------------------------------
ATTR_DIR = 0x10
ATTR_ARCHIVE = 0x20
ATTR_UNIX = 0x8000


def unix_attr(kind: str, mode: int) -> int:
    import stat

    if kind == "dir":
        return ATTR_DIR | ATTR_UNIX | ((stat.S_IFDIR | mode) << 16)
    if kind == "symlink":
        return ATTR_ARCHIVE | 0x400 | ATTR_UNIX | ((stat.S_IFLNK | mode) << 16)
    return ATTR_ARCHIVE | ATTR_UNIX | ((stat.S_IFREG | mode) << 16)


def member_map(parsed: dict) -> list[tuple]:
    return [(m["name"], m["kind"], m["data"]) for m in parsed["members"]]


def parse_header(raw: bytes) -> dict:
    """Structure-only parse of a *raw* (already decoded) header: no geometry, no decoding."""
    notes: list[str] = []
    c = Cur(raw, "header")
    if c.byte() != K_HEADER:
        c.err("Header id expected")
    t = c.byte()
    streams = None
    files = None
    if t == K_MAINSTREAMS:
        streams = _parse_streams(c)
        t = c.byte()
    if t == K_FILES:
        files = _parse_files(c, notes)
        t = c.byte()
    if t != K_END:
        c.err(f"Header: unexpected id {t}")
    if c.left():
        c.err("bytes after the header's End")
    return {"streams": streams, "files": files, "notes": notes}
