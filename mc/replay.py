"""Replay one recorded violation without the explorer: `python -m mc.replay <file>`."""
from __future__ import annotations

import importlib
import json
import os
import sys


def main(argv=None):
    argv = argv if argv is not None else sys.argv[1:]
    if not argv:
        print("usage: python -m mc.replay <replay.json>")
        return 2
    from mc.run import bind_repo

    bind_repo()
    with open(argv[0]) as f:
        body = json.load(f)
    from mc.core.evidence import unjson

    mod = importlib.import_module(body["module"])
    case = unjson(body["case"])
    print(f"replaying {body['property']} {body.get('what', '')[:200]}")
    viol = mod.replay(case)
    # (symptoms prefixed "harness:" are bookkeeping of the check - counted, never judged)
    viol = [v for v in viol if not (isinstance(v, (list, tuple)) and v and isinstance(v[0], str) and v[0].startswith("harness:"))]
    for v in viol:
        print("REPRODUCED:", json.dumps(v, default=repr)[:2000])
    if not viol:
        print("not reproduced (the property holds for this case on the current tree)")
    return 1 if viol else 0


if __name__ == "__main__":
    rc = main()
    sys.stdout.flush()
    os._exit(rc)
