"""Runner: `python -m mc.run C17 [--tier quick|thorough] [--seed N]`."""
from __future__ import annotations

import argparse
import importlib
import os
import sys

REPO = os.environ.get("VP_REPO", "/repo")


def bind_repo():
    """Checks always run against the working tree in /repo."""
    if REPO not in sys.path[:1]:
        sys.path.insert(0, REPO)
    import py7zr

    here = os.path.realpath(os.path.dirname(py7zr.__file__))
    want = os.path.realpath(os.path.join(REPO, "py7zr"))
    if here != want:
        print(f"HARNESS-ERROR py7zr imported from {here}, expected {want}")
        sys.exit(2)


def main(argv=None):
    ap = argparse.ArgumentParser()
    ap.add_argument("prop")
    ap.add_argument("--tier", default=os.environ.get("VERIF_TIER") or "quick")
    ap.add_argument("--seed", type=int, default=int(os.environ.get("VERIF_SEED") or 0))
    ap.add_argument("--only", default=None, help="restrict to named planes (comma separated), for development")
    a = ap.parse_args(argv)
    os.environ.setdefault("PYTHONHASHSEED", "0")
    sys.dont_write_bytecode = True
    bind_repo()
    mod = importlib.import_module(f"mc.checks.{a.prop.lower()}")
    tier = a.tier if a.tier in ("quick", "thorough") else "quick"
    rc = mod.main(tier=tier, seed=a.seed, only=set(a.only.split(",")) if a.only else None)
    sys.stdout.flush()
    os._exit(rc)  # daemon reporter threads of abandoned sessions must not keep the process alive


if __name__ == "__main__":
    main()
