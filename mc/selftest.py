"""setup_cmd: syntax-check the framework and bind the reference implementation to reality:
(i) ref7z must read every third-party fixture under /repo/tests/data it has coders for, every decoded member
matching the CRC stored in that archive; (ii) ref write -> ref read is the identity over a layout sample."""
from __future__ import annotations

import compileall
import os
import subprocess
import sys

VERIF = os.path.dirname(os.path.dirname(os.path.abspath(__file__)))
REPO = os.environ.get("VP_REPO", "/repo")

PASSWORDS = {"encrypted_1.7z": "secret", "encrypted_2.7z": "secret", "encrypted_3.7z": "secret", "encrypted_5.7z": "secret",
             "encrypted_6.7z": "secret", "filename_encryption.7z": "hello"}
EXPECT_UNSUPPORTED = {"lz4.7z", "lzma2bcj2.7z", "lzma2bcj2_2.7z", "lzma_bcj2_1.7z", "test_lzma2bcj2.7z", "zstdmt-brotli.7z"}
EXPECT_DAMAGED = {"crc_corrupted.7z", "data_corrupted.7z"}
SKIP = {"encrypted_4.7z"}  # password not recorded in the repository


def fixtures():
    try:
        out = subprocess.run(["git", "-C", REPO, "ls-files", "tests/data"], capture_output=True, text=True, timeout=30).stdout.split()
        names = [os.path.join(REPO, p) for p in out if p.endswith(".7z")]
    except Exception:
        names = []
    if not names:
        d = os.path.join(REPO, "tests", "data")
        names = [os.path.join(d, n) for n in sorted(os.listdir(d)) if n.endswith(".7z")]
    return sorted(names)


def ref_selftest(verbose=False) -> list[str]:
    from mc.ref import ref7z

    errs = []
    ok = 0
    for p in fixtures():
        n = os.path.basename(p)
        if n in SKIP:
            continue
        blob = open(p, "rb").read()
        try:
            r = ref7z.read(blob, password=PASSWORDS.get(n))
            if n in EXPECT_UNSUPPORTED or n in EXPECT_DAMAGED:
                errs.append(f"{n}: expected to be refused but was read")
            ok += 1
            for m in r["members"]:
                if m["kind"] == "file" and m["crc"] is not None and ref7z.crc32(m["data"]) != m["crc"]:
                    errs.append(f"{n}: member {m['name']} CRC")
        except ref7z.Unsupported as e:
            if n not in EXPECT_UNSUPPORTED:
                errs.append(f"{n}: unsupported: {e}")
        except Exception as e:
            if n not in EXPECT_DAMAGED:
                errs.append(f"{n}: {type(e).__name__}: {e}")
    ms = [{"name": "d", "kind": "dir", "data": None, "attr": ref7z.unix_attr("dir", 0o755), "mtime": 132000000000000000},
          {"name": "d/a", "kind": "file", "data": b"hello world" * 5, "attr": ref7z.unix_attr("file", 0o644), "mtime": 1},
          {"name": "e", "kind": "emptyfile", "data": b""},
          {"name": "b", "kind": "file", "data": bytes(range(256)) * 3, "mtime": (1 << 64) - 1},
          {"name": "l", "kind": "symlink", "data": b"d/a", "attr": ref7z.unix_attr("symlink", 0o777)}]
    n = 0
    for ch in ([("COPY", {})], [("LZMA2", {})], [("X86", {}), ("LZMA", {})], [("DELTA", {}), ("LZMA2", {})], [("BZIP2", {})],
               [("DEFLATE", {})], [("DEFLATE64", {})], [("ZSTD", {})], [("PPMD", {})], [("BROTLI", {})], [("LZMA2", {}), ("AES", {})], [("AES", {})]):
        for folders in ([[1, 3, 4]], [[1], [3, 4]], [[1], [3], [4]]):
            for hdr, crc in (("raw", "substream"), ("lzma", "folder"), ("lzma2", "none"), ("aes", "both"), ("lzma2+aes", "substream")):
                L = {"folders": folders, "chains": [ch] * len(folders), "header": hdr, "crc": crc, "pack_crc": crc == "none",
                     "packpos": 7 if crc == "both" else 0, "dummy": 3 if hdr == "lzma" else None}
                try:
                    r = ref7z.read(ref7z.write(ms, L, password="pw"), password="pw")
                    got = [(m["name"], m["kind"], m["data"], m["mtime"], m["attr"]) for m in r["members"]]
                    want = [(m["name"], "file" if m["kind"] == "symlink" else m["kind"], m["data"], m.get("mtime"), m.get("attr")) for m in ms]
                    if got != want:
                        errs.append(f"ref write->read differs for {ch} {folders} {hdr} {crc}")
                except Exception as e:
                    errs.append(f"ref write->read {ch} {folders} {hdr} {crc}: {type(e).__name__}: {e}")
                n += 1
    if verbose:
        print(f"ref7z: {ok} fixtures read, {n} layouts round-tripped, {len(errs)} problems")
    return errs


def main():
    sys.dont_write_bytecode = True
    ok = compileall.compile_dir(os.path.join(VERIF, "mc"), quiet=1, legacy=False, workers=1, optimize=0) if False else True
    import py_compile

    bad = 0
    for d, _, files in os.walk(os.path.join(VERIF, "mc")):
        for f in files:
            if f.endswith(".py"):
                try:
                    with open(os.path.join(d, f)) as fh:
                        compile(fh.read(), os.path.join(d, f), "exec")
                except SyntaxError as e:
                    print("SYNTAX", e)
                    bad += 1
    from mc.run import bind_repo

    bind_repo()
    errs = ref_selftest(verbose=True)
    for e in errs:
        print("SELFTEST-FAIL", e)
    os.makedirs(os.path.join(VERIF, "evidence"), exist_ok=True)
    os.makedirs(os.path.join(VERIF, "replays"), exist_ok=True)
    return 1 if (errs or bad) else 0


if __name__ == "__main__":
    sys.exit(main())
