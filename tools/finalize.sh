#!/bin/bash
# Refresh the committed evidence from /verif run against /repo itself (quick tier, seed 0), re-run every stored seeded
# change against the current checks, regenerate MANIFEST.json.  Prints one line per check.
cd /verif
for p in C01 C02 C03 C04 C05 C06 C07 C08 C09 C10 C11 C12 C13 C14 C15 C16 C17 C18 C19 C20; do
  PYTHONHASHSEED=0 timeout -k 5 2400 /venv/bin/python -m mc.run $p --tier quick > /tmp/fin_$p.txt 2>&1; rc=$?
  echo "$p rc=$rc $(grep -E "^$p tier" /tmp/fin_$p.txt | tail -1)"
  grep -E "^VIOLATION|^HARNESS" /tmp/fin_$p.txt | head -3 | cut -c1-300
done
/venv/bin/python -m mc.manifest > /dev/null
if [ "${1:-}" = "--regress" ]; then tools/seeded_regress.sh > seeded/REGRESS.txt 2>&1; grep -c "rc=1" seeded/REGRESS.txt; grep -v "rc=1" seeded/REGRESS.txt; fi
