#!/venv/bin/python
"""usage: seed_keep.py <worktree> <seed-id> <property> <detected-by> <needs...>
Confirms a seeded change (suite passes with it, demo fails with / passes without) and stores it under /verif/seeded/<id>/."""
import json, os, shutil, subprocess, sys, time

wt, sid, prop, detected = sys.argv[1:5]
needs = " ".join(sys.argv[5:])
dst = f"/verif/seeded/{sid}"
os.makedirs(dst, exist_ok=True)
run = lambda cmd, **k: subprocess.run(cmd, shell=True, cwd=wt, capture_output=True, text=True, **k)
diff = run("git diff -- py7zr").stdout
assert diff.strip(), "no change in worktree"
open(f"{dst}/patch.diff", "w").write(diff)
shutil.copy(f"{wt}/demo.py", f"{dst}/demo.py")
t = run("/venv/bin/python -m pytest -q -p no:cacheprovider -n 8 2>&1 | tail -1", timeout=1200).stdout.strip()
with_change = run("timeout 300 /venv/bin/python demo.py > /dev/null 2>&1; echo $?").stdout.strip()
# (git stash is shared between worktrees of one repository: revert and re-apply the patch instead)
run(f"git apply -R {dst}/patch.diff")
without = run("timeout 300 /venv/bin/python demo.py > /dev/null 2>&1; echo $?").stdout.strip()
run(f"git apply {dst}/patch.diff")
run("rm -f tests/data/test_multiple.7z")
meta = {"id": sid, "property": prop, "needs_to_manifest": needs, "files": sorted(set(l[6:] for l in diff.splitlines() if l.startswith("+++ b/"))),
        "confirmed": {"pytest_with_change": t, "demo_exit_with_change": with_change, "demo_exit_without_change": without,
                      "base_commit": run("git rev-parse --short HEAD").stdout.strip(), "when": time.strftime("%Y-%m-%d %H:%M")},
        "detected_by": detected,
        "how_to_run": f"git -C /repo apply /verif/seeded/{sid}/patch.diff && <check quick_cmd>; git -C /repo checkout -- ."}
json.dump(meta, open(f"{dst}/meta.json", "w"), indent=1)
print(sid, t, "demo with:", with_change, "without:", without)
