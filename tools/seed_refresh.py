#!/venv/bin/python
"""usage: seed_refresh.py <seed-id>...
Re-makes a stored seeded change whose patch no longer applies to /repo HEAD because of context drift: 3-way applies the old
patch in a scratch worktree, re-confirms it (suite passes, demo fails with / passes without) through seed_keep.py and stores
the new patch.  Fails loudly if the 3-way merge does not apply cleanly (then the change has to be re-made by hand)."""
import json
import subprocess
import sys

for sid in sys.argv[1:]:
    d = f"/verif/seeded/{sid}"
    meta = json.load(open(f"{d}/meta.json"))
    wt = f"/tmp/mut/{sid}"
    subprocess.run(f"git -C /repo worktree remove --force {wt}", shell=True, capture_output=True)
    subprocess.run(f"mkdir -p /tmp/mut && git -C /repo worktree add -q --detach {wt} HEAD", shell=True, check=True)
    try:
        r = subprocess.run(f"git -C {wt} apply --3way {d}/patch.diff && git -C {wt} reset -q", shell=True, capture_output=True, text=True)
        if r.returncode:
            print(sid, "3-way apply failed:", r.stderr[-300:])
            continue
        subprocess.run(f"cp {d}/demo.py {wt}/demo.py", shell=True, check=True)
        r = subprocess.run(["/venv/bin/python", "/verif/tools/seed_keep.py", wt, sid, meta["property"], meta["detected_by"], meta["needs_to_manifest"]], capture_output=True, text=True)
        print((r.stdout + r.stderr).strip().splitlines()[-1])
    finally:
        subprocess.run(f"git -C /repo worktree remove --force {wt}", shell=True, capture_output=True)
