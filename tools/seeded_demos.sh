#!/bin/bash
# usage: seeded_demos.sh [<id> ...]  - re-validates the demonstration of every stored seeded change on /repo's HEAD:
# demo.py must exit 0 on the unchanged tree and 1 with the change applied.  One line per change; scratch worktrees only.
set -u
ids=${@:-$(ls /verif/seeded | grep -E '^C[0-9]+[a-z]$')}
one() {
  id=$1; wt=/tmp/mut/demo-$id
  git -C /repo worktree add --detach -q $wt HEAD 2>/dev/null || { echo "$id WORKTREE-FAILED"; return; }
  cp /verif/seeded/$id/demo.py $wt/demo.py
  (cd $wt && timeout 600 /venv/bin/python demo.py > /dev/null 2>&1); without=$?
  if git -C $wt apply /verif/seeded/$id/patch.diff 2>/dev/null; then
    (cd $wt && timeout 600 /venv/bin/python demo.py > /dev/null 2>&1); with=$?
  else with=PATCH-DOES-NOT-APPLY; fi
  echo "$id without=$without with=$with $([ "$without" = 0 ] && [ "$with" = 1 ] && echo ok || echo STALE-DEMO)"
  git -C /repo worktree remove --force $wt
}
export -f one
printf "%s\n" $ids | xargs -P 6 -I{} bash -c 'one {}'
