#!/bin/bash
# usage: seeded_regress.sh [<id> ...]   - re-runs, for every stored seeded change, the quick check of its property
# against a scratch worktree of /repo's HEAD with the change applied; prints one line per change.
# Nothing in /repo or in the committed evidence is touched.
set -u
wt=/tmp/mut/regress
[ -d $wt ] || git -C /repo worktree add --detach -q $wt HEAD
git -C $wt checkout -q --detach $(git -C /repo rev-parse HEAD); git -C $wt checkout -q -- .
ids=${@:-$(ls /verif/seeded | grep -E '^C[0-9]+[a-z]$')}
for id in $ids; do
  prop=$(/venv/bin/python -c "import json;print(json.load(open('/verif/seeded/$id/meta.json'))['property'])")
  if ! git -C $wt apply /verif/seeded/$id/patch.diff 2>/dev/null; then echo "$id $prop PATCH-DOES-NOT-APPLY"; continue; fi
  out=/tmp/mut_ev/regress-$id; mkdir -p $out
  VP_REPO=$wt VP_EVIDENCE_DIR=$out VP_REPLAY_DIR=$out/replays PYTHONHASHSEED=0 timeout -k 5 3000 /venv/bin/python -m mc.run $prop --tier quick > $out/out.txt 2>&1
  rc=$?
  echo "$id $prop rc=$rc violations=$(grep -c '^VIOLATION' $out/out.txt) $(grep '^VIOLATION' $out/out.txt | head -1 | sed 's/.*# //' | cut -c1-150)"
  git -C $wt checkout -q -- .
  rm -rf $out
done
git -C /repo worktree remove --force $wt
