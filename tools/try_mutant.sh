#!/bin/bash
# usage: try_mutant.sh <worktree-with-uncommitted-change> <tier> <prop> [<prop>...]
# Runs the given checks against the worktree (VP_REPO) without touching /repo or the committed evidence.
wt=$1; tier=$2; shift 2
out=/tmp/mut_ev/$(basename $wt); mkdir -p $out
for p in "$@"; do
  VP_REPO=$wt VP_EVIDENCE_DIR=$out VP_REPLAY_DIR=$out/replays PYTHONHASHSEED=0 timeout -k 5 3000 /venv/bin/python -m mc.run $p --tier $tier > $out/$p.$tier.txt 2>&1
  rc=$?
  echo "$p $tier rc=$rc $(grep -c '^VIOLATION' $out/$p.$tier.txt) violations | $(tail -1 $out/$p.$tier.txt | cut -c1-160)"
  grep '^VIOLATION' $out/$p.$tier.txt | head -2 | cut -c1-330
done
